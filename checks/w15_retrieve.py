#!/usr/bin/env python3
"""W15 — the whole block retriever `retrieve()`: in-process correspondence and
property campaign (C09 retrieve_split / fast_eq_slow, C05, C06, C08).

Library: `run(ck)` is called by the property checks; stand-alone
`python3 checks/w15_retrieve.py [--tier quick|thorough]` runs the same
campaign for testing and writes NO evidence.

Three programs answer the same line protocol on the same inputs:
  C      harness/h_retrieve.c : the REAL retrieve() (decode.c #included), one
         call per word segment, every segment in its own exact-size malloc
         (ASan sees a read at `limit`), asserts on, UBSan on;
  Model  lbzdrv `retrieve`     : Model.Retrieve.retrieve, one call per segment;
         lbzdrv `retrieveslow` : the same with the fast branch removed;
  Spec   lbzdrv `specretr`     : Spec.Bzip2.parseBlock + unMtfRle2 + the
         empty-block / origPtr tests on the same bits.

Inputs: block bit streams (positioned after the 32-bit block CRC) produced
with tools/bzformat.py (make_block / make_raw_block / worst_case_block /
make_planted_block): 2..6 tables, random complete tables with codes up to 20
bits, zig-zag deltas, surplus selectors, worst-case 1000-bit groups, long
runs, randomised flag; one crafted defect per malformed case, so that every
error code of retrieve() is reached (bitmap, trees, groups, selector, delta,
prefix (oversubscribed), incomplete, overflow, unterm, empty, bwtidx, eof).
The stream is offered with 0..63 bits already in the bit buffer and is
followed by random padding.

Splits: for streams of at most SMALL words EVERY single split position
(including an empty first and an empty last segment), all-one-word segments,
and random multi-splits; for longer streams random multi-splits that contain
segments of >= 32 words (fast branch) next to short ones (slow branch);
plus runs that end in MORE (eof = 0) and empty middle segments (the
`assert(bs->eof)` of the resume path: C aborts, the model says 1002).

Judged
  correspondence  C reply == Model reply, text for text (status, MORE trace =
                  resume state / live bits / block_size after every MORE,
                  words consumed, live, buffer, block_size, tt bytes, bwt_idx,
                  rand, ftab hash);
  C09 (split)     for every segmentation of one stream the C result (all
                  fields but the call trace) equals the C one-shot result;
  C09 (fast=slow) Model `retrieve` == Model `retrieveslow`;
  C05 / C06       C says OK  <=>  Spec accepts, with the same end position,
                  block, origPtr, rand (streams followed by >= 2 padding
                  words; error statuses are tabulated against Spec's reasons).
"""
import hashlib
import os
import random
import subprocess
import sys
import time
from concurrent.futures import ThreadPoolExecutor

HERE = os.path.dirname(os.path.abspath(__file__))
sys.path.insert(0, os.path.join(HERE, '..', 'tools'))
import bzformat as bz                                      # noqa: E402

REPO = os.environ.get('LBZ_REPO', '/repo')
SMALL = 48          # words: every split position is tried up to this size

ERR = {5: 'bitmap', 6: 'trees', 7: 'groups', 8: 'selector', 9: 'delta',
       10: 'prefix', 11: 'incomplete', 12: 'empty', 13: 'unterm',
       17: 'overflow', 18: 'bwtidx', 19: 'eof', 0: 'ok', 1: 'more',
       1000: 'MODEL-ub', 1001: 'MODEL-overread', 1002: 'assert'}
STATE = {0: 'S_INIT', 1: 'S_BWT_IDX', 2: 'S_BITMAP_BIG', 3: 'S_BITMAP_SMALL',
         4: 'S_SELECTOR_MTF', 5: 'S_DELTA_TAG', 6: 'S_PREFIX'}
# C status -> Spec reasons that describe the same defect
SPEC_FOR = {5: {'empty-bitmap'}, 6: {'bad-ngroups'}, 7: {'no-selectors'},
            8: {'bad-selector'}, 9: {'bad-code-length'},
            10: {'used-table-not-complete'}, 11: {'used-table-not-complete'},
            12: {'empty-block'}, 13: {'missing-eob'}, 17: {'block-overflow'},
            18: {'bad-origptr'}, 19: {'truncated'}}


def par_batch(argv, lines, nproc=14, timeout=3000):
    if not lines:
        return [], None
    nproc = max(1, min(nproc, len(lines) // 4 or 1))
    chunks = [lines[i::nproc] for i in range(nproc)]

    def one(ch):
        r = subprocess.run(argv, input='\n'.join(ch) + '\n', text=True,
                           stdout=subprocess.PIPE, stderr=subprocess.PIPE,
                           timeout=timeout)
        out = r.stdout.split('\n')
        if out and out[-1] == '':
            out.pop()
        return r.returncode, out, r.stderr

    with ThreadPoolExecutor(nproc) as ex:
        res = list(ex.map(one, chunks))
    out = [None] * len(lines)
    err = None
    for i, (rc, o, e) in enumerate(res):
        if rc != 0 or len(o) != len(chunks[i]):
            err = ('exit %s, %d/%d replies; first unanswered request: %s; '
                   'stderr: %s' % (rc, len(o), len(chunks[i]),
                                   chunks[i][min(len(o), len(chunks[i]) - 1)][:400],
                                   e[-1500:]))
        for j, line in enumerate(o[:len(chunks[i])]):
            out[i + j * nproc] = line
    return out, err


# ------------------------------------------------------------ bit plumbing
def pack(bits, live, pad_words, rng):
    """-> (buff hex16, hex of the words, number of words).  The first `live`
    bits go into the bit buffer, the rest into words; the last word is filled
    and `pad_words` more words are appended, all with random bits."""
    live = min(live, len(bits))
    buff = 0
    for b in bits[:live]:
        buff = (buff << 1) | b
    buff <<= 64 - live
    rest = list(bits[live:])
    rest += [rng.getrandbits(1) for _ in range((-len(rest)) % 32)]
    rest += [rng.getrandbits(1) for _ in range(32 * pad_words)]
    v = 0
    for b in rest:
        v = (v << 1) | b
    n = len(rest) // 32
    hx = ('%0*x' % (8 * n, v)) if n else '-'
    return '%016x' % buff, hx, n


def fields(reply):
    d = {}
    for tok in reply.split(' '):
        if '=' in tok:
            k, v = tok.split('=', 1)
            d[k] = v
    return d


def result_part(reply):
    """the reply without the call trace"""
    return ' '.join(t for t in reply.split(' ')
                    if not t.startswith(('calls=', 'more=')))


# -------------------------------------------------------------- generators
def code_bits(lens, codes, s):
    return [(codes[s] >> i) & 1 for i in range(lens[s] - 1, -1, -1)]


def patch_symbols(w, info, newsyms):
    """replace the coded symbols of the block just written by `newsyms`
    (bzip2 numbering, coded with the table the selector of each group names)"""
    cb = [f for f in w.fields if f[0] == 'codes'][-1][1]
    out = list(w.bits[:cb])
    lens = info['lens']
    codes = [bz.canon_codes(l) for l in lens]
    sel = info['selectors']
    for i, s in enumerate(newsyms):
        t = sel[i // 50] if i // 50 < len(sel) else 0
        out += code_bits(lens[t], codes[t], s)
    w.bits[:] = out


def text(rng, n, alphabet=None):
    alphabet = alphabet or rng.choice([4, 16, 60, 256])
    syl = [bytes(rng.randrange(alphabet) for _ in range(rng.randint(1, 6)))
           for _ in range(12)]
    out = bytearray()
    while len(out) < n:
        out += rng.choice(syl) if rng.random() < 0.8 else bytes(
            [rng.randrange(alphabet)] * rng.randint(1, 9))
    return bytes(out[:n])


def gen_valid(rng, size):
    """-> (tag, bits after the CRC, expected C status or None)"""
    w = bz.BitWriter()
    kind = rng.choice(['huff', 'huff', 'rtab', 'rtab-deep', 'zigzag', 'surplus',
                       'rand', 'worst', 'runs', 'planted', 'raw'])
    if kind == 'worst':
        bz.worst_case_block(w, ngroups=max(1, size // 120),
                            extra_selectors=rng.choice([0, 0, 3, 40]))
    elif kind == 'planted':
        payload = [rng.getrandbits(1) if rng.random() < 0.8 else 0
                   for _ in range(max(8, min(size, 4000)))]
        # at most 16 consecutive ones
        run = 0
        for i, b in enumerate(payload):
            run = run + 1 if b else 0
            if run > 15:
                payload[i] = 0
                run = 0
        bz.make_planted_block(w, payload, pre=rng.randint(0, 5),
                              post=rng.randint(0, 9), rng=rng)
    elif kind == 'runs':
        used = sorted(rng.sample(range(256), rng.randint(1, 5)))
        syms = []
        # (make_raw_block searches an origPtr by trial: keep the block small)
        for _ in range(rng.randint(1, max(2, min(size, 1200) // 40))):
            syms += [rng.randint(0, 1) for _ in range(rng.randint(1, 7))]
            if len(used) > 1:
                syms.append(rng.randint(2, len(used)))
        alpha = len(used) + 2
        nt = rng.randint(2, 6)
        lens = [bz.random_complete_lengths(rng, alpha, deep=rng.random() < .5)
                for _ in range(nt)]
        ng = (len(syms) + 1 + 49) // 50
        try:
            bz.make_raw_block(w, used, lens, [rng.randrange(nt) for _ in range(ng)],
                              syms, extra_selectors=rng.choice([0, 0, 1, 7]))
        except (ValueError, bz.Reject):
            return gen_valid(rng, size)
    elif kind == 'raw':
        used = sorted(rng.sample(range(256), rng.randint(2, 40)))
        alpha = len(used) + 2
        syms = [rng.randrange(alpha - 1) for _ in range(rng.randint(1, max(2, size // 4)))]
        nt = rng.randint(2, 6)
        lens = [bz.random_complete_lengths(rng, alpha, deep=rng.random() < .6)
                for _ in range(nt)]
        ng = (len(syms) + 1 + 49) // 50
        try:
            bz.make_raw_block(w, used, lens, [rng.randrange(nt) for _ in range(ng)],
                              syms, extra_selectors=rng.choice([0, 0, 2]))
        except (ValueError, bz.Reject):
            return gen_valid(rng, size)
    else:
        kw = {'ntables': rng.randint(2, 6)}
        if kind in ('rtab', 'rtab-deep', 'zigzag', 'surplus'):
            kw['random_tables'] = True
            kw['random_selectors'] = True
        if kind == 'rtab-deep':
            kw['deep'] = True
        if kind == 'zigzag':
            kw['zigzag'] = rng.choice([0.1, 0.3, 0.45])
        if kind == 'surplus':
            kw['extra_selectors'] = rng.choice([1, 5, 60, 700])
        if kind == 'rand':
            kw['rand'] = True
        bz.make_block(w, text(rng, max(1, size)), rng=rng, **kw)
    return kind, w.bits[80:], 0


def gen_bad(rng, size, which):
    """one crafted defect; -> (tag, bits, expected C status)"""
    w = bz.BitWriter()
    plain = text(rng, max(4, size), alphabet=rng.choice([4, 16, 60]))
    nt = rng.randint(2, 6)
    kw = {'ntables': nt, 'random_tables': rng.random() < .5}
    if which == 'bitmap':
        bz.make_block(w, plain, rng=rng, empty_bitmap=True, **kw)
        return which, w.bits[80:], 5
    if which == 'trees':
        bz.make_block(w, plain, rng=rng, ngroups_field=rng.choice([0, 1, 7]), **kw)
        return which, w.bits[80:], 6
    if which == 'groups':
        bz.make_block(w, plain, rng=rng, nsel_field=0, **kw)
        return which, w.bits[80:], 7
    if which == 'selector':
        nt = rng.randint(3, 6)
        plain = text(rng, max(200, size))
        info = None
        for _ in range(20):
            w = bz.BitWriter()
            info = bz.make_block(w, plain, rng=rng, ntables=nt, random_selectors=True,
                                 ngroups_field=nt - 1)
            if nt - 1 in info['selectors']:
                break
            plain += text(rng, 100)
        return which, w.bits[80:], 8 if nt - 1 in info['selectors'] else None
    if which == 'delta':
        # start value 0 / 21..31, or an excursion 20 -> 21 -> 20 / 1 -> 0 -> 1
        w0 = bz.BitWriter()
        info = bz.make_block(w0, plain, rng=random.Random(1), **kw)
        alpha = info['alpha']
        shape = rng.choice(['start0', 'start21', 'up', 'down'])
        if shape == 'start0':
            raw = (0, '100' + '0' * (alpha - 1))
        elif shape == 'start21':
            raw = (rng.randint(21, 31), '110' + '0' * (alpha - 1))
        elif shape == 'up':
            raw = (20, '0' * rng.randint(0, alpha - 1) + '10110' + '0' * alpha)
        else:
            raw = (1, '0' * rng.randint(0, alpha - 1) + '11100' + '0' * alpha)
        rt = [None] * nt
        rt[rng.randrange(nt)] = raw
        bz.make_block(w, plain, rng=random.Random(1), raw_tables=rt, **kw)
        return which + '-' + shape, w.bits[80:], 9
    if which in ('prefix', 'incomplete'):
        w0 = bz.BitWriter()
        info = bz.make_block(w0, plain, rng=random.Random(2), **kw)
        alpha = info['alpha']
        t = info['selectors'][0]
        if which == 'prefix':        # oversubscribed: all lengths 1
            raw = (1, '0' * alpha)
        else:                        # incomplete: all lengths 20 (or 9 for alpha <= 256)
            raw = (20, '0' * alpha)
        rt = [None] * nt
        rt[t] = raw
        bz.make_block(w, plain, rng=random.Random(2), raw_tables=rt, **kw)
        return which, w.bits[80:], 10 if which == 'prefix' else 11
    if which == 'empty':
        info = bz.make_block(w, plain, rng=rng, **kw)
        patch_symbols(w, info, [info['alpha'] - 1])
        return which, w.bits[80:], 12
    if which == 'unterm':
        # no EOB and the last group filled up to 50 symbols with MTF position 1: the
        # selectors run out exactly at the end of the coded data
        seed = rng.getrandbits(30)
        w0 = bz.BitWriter()
        info = bz.make_block(w0, plain, rng=random.Random(seed), drop_eob=True, **kw)
        fill = (-info['syms']) % 50
        if rng.random() < 0.3 or info['alpha'] < 4:
            # variant: leave the group short; symbols are then decoded from the
            # padding and the outcome is whatever they give (no expectation)
            bz.make_block(w, plain, rng=random.Random(seed), drop_eob=True, **kw)
            return which + '-short', w.bits[80:], None
        bz.make_block(w, plain, rng=random.Random(seed), drop_eob=True,
                      tail_syms=[2] * fill, **kw)
        return which, w.bits[80:], 13
    if which == 'overflow':
        info = bz.make_block(w, text(rng, 300), rng=rng, **kw)
        n = rng.randint(19, 24)
        syms = [rng.randint(0, 1) for _ in range(n - 1)] + [1] * 3
        syms += [info['alpha'] - 1]
        patch_symbols(w, info, syms)
        return which, w.bits[80:], 17
    if which == 'bwtidx':
        w0 = bz.BitWriter()
        info = bz.make_block(w0, plain, rng=random.Random(3), **kw)
        bz.make_block(w, plain, rng=random.Random(3),
                      origptr=rng.choice([info['nblock'], info['nblock'] + 1,
                                          (1 << 24) - 1]), **kw)
        return which, w.bits[80:], 18
    raise ValueError(which)


BAD = ['bitmap', 'trees', 'groups', 'selector', 'delta', 'prefix',
       'incomplete', 'empty', 'unterm', 'overflow', 'bwtidx']


# --------------------------------------------------------------- splittings
def random_split(rng, n, with_fast):
    """composition of n into positive parts (first part may be 0)"""
    parts = []
    left = n
    if rng.random() < 0.15:
        parts.append(0)
    while left > 0:
        r = rng.random()
        if with_fast and r < 0.35 and left >= 32:
            k = rng.randint(32, min(left, 90))
        elif r < 0.6:
            k = 1
        else:
            k = rng.randint(1, min(left, 31))
        parts.append(k)
        left -= k
    return parts or [0]


def splits_for(rng, n, quick):
    s = [[n]]
    if n <= SMALL:
        for p in range(0, n + 1):
            s.append([p, n - p])
        s.append([1] * n if n else [0])
        k = 4 if quick else 12
    else:
        k = 5 if quick else 14
        s.append([n - 1, 1])
        s.append([1, n - 1])
        s.append([n // 2, n - n // 2])
        if n <= 400:
            s.append([1] * n)
        # a cut just around the fast-path threshold
        for p in (31, 32, 33):
            if p < n:
                s.append([n - p, p])
    for _ in range(k):
        s.append(random_split(rng, n, n > 64))
    seen = set()
    out = []
    for x in s:
        t = tuple(x)
        if t not in seen and sum(x) == n:
            seen.add(t)
            out.append(x)
    return out


# -------------------------------------------------------------------- run
def run(ck):
    t0 = time.time()
    rng = ck.rng
    quick = ck.quick
    drv = ck.driver()
    cov = {'library': 'w15_retrieve', 'evaluations': 0}
    if not os.path.exists(drv):
        ck.broken.append('w15: driver %s missing' % drv)
        return cov
    h = ck.cc('h_retrieve', ['harness/h_retrieve.c',
                             os.path.join(REPO, 'src', 'crctab.c')])
    if h is None:
        return cov

    # ---- the streams
    streams = []        # (tag, live, buff, hex, nwords, eof, expected, pad)
    nvalid = 60 if quick else 420
    for i in range(nvalid):
        size = rng.choice([6, 20, 60, 150, 400] if quick
                          else [6, 20, 60, 150, 400, 1500, 6000])
        if i % 7 == 0:
            size = rng.choice([900, 2500] if quick else [2500, 6000, 12000])
        tag, bits, exp = gen_valid(rng, size)
        live = rng.choice([0, 0, rng.randint(1, 31), rng.randint(32, 63)])
        pad = rng.choice([2, 2, 3, 40])
        streams.append((tag, bits, live, pad, 1, exp))
    # more declared selectors than the bound 18001 (clamp), few real groups
    for i in range(2 if quick else 8):
        w = bz.BitWriter()
        bz.make_block(w, text(rng, rng.choice([30, 400])), rng=rng,
                      ntables=rng.randint(2, 6),
                      extra_selectors=rng.choice([17990, 18001, 18100, 32700]))
        streams.append(('surplus-big', w.bits[80:], rng.choice([0, 17]), 2, 1, 0))
    if not quick:
        # the extreme block: 900000 one-byte symbols, EOB is symbol 900001 in
        # group 18001 (the last one the clamp keeps)
        w = bz.BitWriter()
        lens = [2, 3, 1, 3]
        try:
            bz.make_raw_block(w, [65, 66], [lens, lens], [0] * 18001,
                              [2] * 900000, extra_selectors=5)
            streams.append(('extreme-18001', w.bits[80:], 0, 2, 1, 0))
        except (ValueError, bz.Reject) as e:
            ck.log('w15: extreme block not built: %r' % (e,))
    nbad = 4 if quick else 24
    for which in BAD:
        for i in range(nbad):
            tag, bits, exp = gen_bad(rng, rng.choice([10, 60, 300]), which)
            live = rng.choice([0, rng.randint(1, 63)])
            pad = 40 if which == 'unterm' else rng.choice([2, 3, 40])
            streams.append(('bad-' + tag, bits, live, pad, 1, exp))
    # truncations: eof inside the block (ERR_EOF), and the same with eof = 0 (MORE)
    ntr = 25 if quick else 160
    for i in range(ntr):
        tag, bits, exp = gen_valid(rng, rng.choice([6, 30, 120, 600]))
        cut = rng.randint(0, len(bits) - 1)
        cut -= cut % 32 if rng.random() < .5 else 0
        live = rng.choice([0, rng.randint(0, 63)])
        eof = rng.choice([1, 1, 0])
        streams.append(('trunc-' + tag, bits[:cut], live, 0, eof, None))
    # complete blocks followed by NO padding at all (NEED wants a whole word)
    for i in range(10 if quick else 60):
        tag, bits, exp = gen_valid(rng, rng.choice([6, 30, 120]))
        streams.append(('nopad-' + tag, bits, rng.choice([0, rng.randint(0, 63)]),
                        0, 1, None))

    reqs = []           # (stream index, sizes, line)
    packed = []
    for si, (tag, bits, live, pad, eof, exp) in enumerate(streams):
        buff, hx, n = pack(bits, live, pad, rng)
        live = min(live, len(bits))
        packed.append((tag, live, buff, hx, n, eof, exp, pad, len(bits)))
        for sizes in splits_for(rng, n, quick):
            reqs.append((si, sizes, 'retrieve %d %s %d %s %s' % (
                live, buff, eof, ','.join(map(str, sizes)), hx)))
    # empty middle segments: assert(bs->eof) on resume
    nassert = 0
    for si, p in enumerate(packed):
        if p[4] >= 3 and si % 9 == 0:
            n = p[4]
            a = rng.randint(1, n - 1)
            reqs.append((si, [a, 0, n - a], 'retrieve %d %s %d %s %s' % (
                p[1], p[2], p[5], '%d,0,%d' % (a, n - a), p[3])))
            nassert += 1

    lines = [r[2] for r in reqs]
    ck.log('w15: %d streams, %d retrieve runs' % (len(packed), len(lines)))
    c_out, c_err = par_batch([h], lines)
    m_out, m_err = par_batch([drv], lines)
    s_out, s_err2 = par_batch([drv], [l.replace('retrieve ', 'retrieveslow ', 1)
                                      for l in lines])
    spec_lines = ['specretr %d %s %s' % (p[1], p[2], p[3]) for p in packed]
    sp_out, sp_err = par_batch([drv], spec_lines)
    for e, who in ((m_err, 'lbzdrv retrieve'), (s_err2, 'lbzdrv retrieveslow'),
                   (sp_err, 'lbzdrv specretr')):
        if e:
            ck.broken.append('w15: %s failed: %s' % (who, e[:500]))

    states = {}
    codes = {}
    seglen = {'0': 0, '1': 0, '2-31': 0, '32+': 0}
    evals = 0
    seen = set()
    nontriv = 0
    corr_bad = []
    samples = []
    spec_table = {}
    oneshot = {}
    n_split_cmp = 0
    n_fast_slow = 0
    n_spec = 0

    def replay(si, sizes):
        p = packed[si]
        return {'tag': p[0], 'live': p[1], 'buff': p[2], 'eof': p[5],
                'sizes': ','.join(map(str, sizes)), 'words_hex': p[3][:200000],
                'how': 'echo "retrieve <live> <buff> <eof> <sizes> <words_hex>"'
                       ' | h_retrieve  (harness/h_retrieve.c + src/crctab.c)'}

    if c_err:
        # the harness died: find the request it died on (sanitizer report)
        ck.log('w15: harness failure: ' + c_err[:1500])
    for i, (si, sizes, line) in enumerate(reqs):
        c, m, s = c_out[i], m_out[i], s_out[i]
        if c is None:
            continue
        evals += 1
        key = hashlib.sha1(line.encode()).hexdigest()
        if key not in seen:
            seen.add(key)
            nontriv += 1
        for x in sizes:
            seglen['0' if x == 0 else '1' if x == 1 else '2-31' if x < 32 else '32+'] += 1
        f = fields(c)
        st = int(f.get('status', -1))
        codes[st] = codes.get(st, 0) + 1
        if f.get('more', '-') != '-':
            for item in f['more'].split(','):
                k = int(item.split('/')[0])
                states[k] = states.get(k, 0) + 1
        if m is not None and c != m:
            what = 'C %s | Model %s' % (c[:300], m[:300])
            if len(corr_bad) < 10:
                corr_bad.append('%s sizes=%s: %s' % (packed[si][0], sizes[:12], what))
            # judge the property on the real code: split independence
        if m is not None and s is not None:
            n_fast_slow += 1
            if m != s:
                ck.broken.append('w15: Model retrieve != retrieveslow (fast_eq_slow '
                                 'fails on the model): %s sizes=%s' % (packed[si][0], sizes[:12]))
        if len(sizes) == 1:
            oneshot[si] = c
            if len(samples) < 8 and (len(samples) < 4 or st not in (0,)):
                samples.append({'tag': packed[si][0], 'words': packed[si][4],
                                'live': packed[si][1], 'reply': result_part(c)[:160]})
    # C09: every segmentation gives the one-shot result (on the REAL code)
    for i, (si, sizes, line) in enumerate(reqs):
        c = c_out[i]
        if c is None or si not in oneshot or len(sizes) == 1:
            continue
        if 0 in sizes[1:-1] or (sizes[-1] == 0 and packed[si][5] == 0):
            # resume on an empty segment without eof: assert(bs->eof)
            f = fields(c)
            if int(f.get('status', -1)) not in (1002,) and 'more=-' not in c:
                # legal only if the run ended before reaching the empty segment
                if int(f.get('calls', 0)) > sizes.index(0, 1) and 'more=-' not in c:
                    ck.violation('retrieve() resumed on an empty segment without eof '
                                 'and did not assert: ' + c[:200], replay(si, sizes))
            continue
        n_split_cmp += 1
        if result_part(c) != result_part(oneshot[si]):
            ck.violation('C09 retrieve_split: segmentation %s gives "%s", one call gives "%s"'
                         % (sizes[:20], result_part(c)[:200], result_part(oneshot[si])[:200]),
                         replay(si, sizes))
    # C05 / C06 against the Spec, one-shot runs with eof = 1
    for si, p in enumerate(packed):
        c = oneshot.get(si)
        sp = sp_out[si] if sp_out and si < len(sp_out) else None
        if c is None or sp is None:
            continue
        f = fields(c)
        st = int(f.get('status', -1))
        tag, live, buff, hx, n, eof, exp, pad, nbits = p
        if exp is not None and st != exp and eof == 1:
            ck.broken.append('w15: generator expectation: %s expected status %s, C says %s'
                             % (tag, exp, st))
        if eof != 1:
            continue
        n_spec += 1
        key = (ERR.get(st, str(st)), sp.split(' ')[1] if sp.startswith('err') else 'ok')
        spec_table[key] = spec_table.get(key, 0) + 1
        if st == 0:
            g = fields(sp)
            end = live + 32 * int(f['words']) - int(f['live'])
            if not sp.startswith('ok'):
                ck.violation('C05: retrieve() returns OK, the reference rejects (%s)' % sp[:80],
                             replay(si, [n]))
            elif (str(end), f['bs'], f['idx'], f['rand'], f['tt']) != (
                    g['end'], g['bs'], g['idx'], g['rand'], g['tt']):
                ck.violation('C05: retrieve() OK with a different block / end position: '
                             'C end=%d bs=%s idx=%s rand=%s | Spec %s'
                             % (end, f['bs'], f['idx'], f['rand'], sp[:120]),
                             replay(si, [n]))
        elif sp.startswith('ok'):
            g = fields(sp)
            # NEED() wants a whole word beyond the last code: with fewer than
            # 32 bits after the block ERR_EOF is legitimate (a real stream has
            # 80 more bits: end-of-stream magic and CRC)
            after = live + 32 * n - int(g['end'])
            if not (st == 19 and after < 64):
                ck.violation('C06: the reference accepts (end=%s, %d bits follow), '
                             'retrieve() returns %s' % (g['end'], after, ERR.get(st, st)),
                             replay(si, [n]))
        else:
            reason = sp.split(' ')[1]
            if st in SPEC_FOR and reason not in SPEC_FOR[st] and not (
                    st == 19 or reason == 'truncated'):
                # two defects in one stream are possible (random padding decoded
                # as symbols); only tabulated
                pass
    for wbad in corr_bad:
        ck.broken.append('correspondence: w15 ' + wbad[:400])
    if c_err:
        # a dead harness is a sanitizer abort (or a crash): property C08
        ck.violation('h_retrieve died (sanitizer / crash): ' + c_err[:600],
                     {'how': 'see stderr excerpt', 'stderr': c_err[-1500:]})
    missing_states = [STATE[k] for k in range(1, 7) if k not in states]
    missing_codes = [ERR[k] for k in (0, 1, 5, 6, 7, 8, 9, 10, 11, 12, 13, 17, 18, 19, 1002)
                     if k not in codes]
    if missing_states:
        ck.broken.append('w15: resume states never suspended at: %s' % missing_states)
    if missing_codes:
        ck.broken.append('w15: statuses never reached: %s' % missing_codes)
    sizes_hist = {}
    for p in packed:
        b = ('<=16' if p[4] <= 16 else '<=48' if p[4] <= 48 else '<=256'
             if p[4] <= 256 else '<=2048' if p[4] <= 2048 else '>2048')
        sizes_hist[b] = sizes_hist.get(b, 0) + 1
    cov.update({
        'evaluations': evals, 'distinct_nontrivial': nontriv,
        'rule': 'one evaluation = one (stream, segmentation) run through the real '
                'retrieve(), compared with the model; distinct = distinct request '
                'text; all are non-trivial (each decodes at least the block header)',
        'streams': len(packed), 'stream_words_hist': sizes_hist,
        'segment_length_hist': seglen,
        'resume_states_suspended_at': {STATE[k]: v for k, v in sorted(states.items())},
        'statuses_reached': {ERR.get(k, str(k)): v for k, v in sorted(codes.items())},
        'split_comparisons_vs_oneshot': n_split_cmp,
        'fast_vs_slow_model_comparisons': n_fast_slow,
        'spec_comparisons': n_spec,
        'c_status_vs_spec_reason': {'%s|%s' % k: v for k, v in sorted(spec_table.items())},
        'assert_runs': nassert,
        'exhaustive': 'every single split position for streams of <= %d words; '
                      'random multi-splits otherwise' % SMALL,
        'samples': samples[:8],
        'wall_s': round(time.time() - t0, 1),
    })
    ck.log('w15_retrieve: %d runs, %d streams, states %s, statuses %s, %.1fs' % (
        evals, len(packed), cov['resume_states_suspended_at'],
        cov['statuses_reached'], time.time() - t0))
    return cov


if __name__ == '__main__':
    from vlib import Check

    class Standalone(Check):
        """same machinery, but never writes evidence"""

        def violation(self, what, replay, signature=None, no_input=False):
            self.violations.append(what)
            self.log('VIOLATION (standalone, not recorded): %s\n   replay: %s'
                     % (what, str(replay)[:600]))

        def finish(self, coverage, extra_assumptions=()):
            self.log('standalone: violations=%d broken=%s' % (
                len(self.violations), self.broken))
            self.log('coverage: %s' % str(coverage)[:4000])
            sys.exit(1 if (self.violations or self.broken) else 0)

    ck = Standalone('C09')
    ck.finish(run(ck))
