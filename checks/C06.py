#!/usr/bin/env python3
"""C06 — every conforming bzip2 file is decompressed.

Theorems: Props/C06/*.lean (completeness converses: every in-range delta path
is accepted wherever the 6-bit windows fall, ...).  Per run: the valid side of
the structured stream generator (every degree of freedom of the format) plus
real libbz2 output and the repo's sample files; expected plaintext from the
strict oracle (cross-checked with libbz2 / Lean Spec).  'oracle accepts and
lbzip2 -d does not exit 0 with the same bytes' is a violation with the stream
as replay."""
import os
import sys
sys.path.insert(0, os.path.join(os.path.dirname(os.path.abspath(__file__)),
                                '..', 'tools'))
sys.path.insert(0, os.path.dirname(os.path.abspath(__file__)))
from vlib import Check  # noqa: E402
import camp_decode as C  # noqa: E402
import decode_run as D  # noqa: E402
import inproc  # noqa: E402

ck = Check('C06')
ck.regen()
mods = ck.props_modules()
if mods:
    ck.lean(mods)
    ck.require_theorems([
        'LbzVerif.Props.C06.deltaWindow_complete',
        'LbzVerif.Props.C06.Block.retrieve_complete',
        'LbzVerif.Props.C06.Block.retrieveAll_complete',
        'LbzVerif.Props.C06.File.expand_complete',
        'LbzVerif.Props.C06.File.expand_iff',
        'LbzVerif.Props.C06.File.expandFile_ne_fuel',
    ])
inproc.run_libs(ck, ['w12_emit', 'w15_retrieve', 'w22_expand'])
exe = ck.build_lbzip2(asan=False)
evals = nontriv = 0
samples = []
dist = {}
lean_n = None
if exe:
    cases, big = D.build_cases(ck, valid=True, malformed=False, heavy=True)
    # the accepted part of the malformed family is conforming input too
    more, _ = D.build_cases(ck, valid=False, malformed=True)
    cases += [c for c in more if c.expect is not None]
    cases = C.dedupe(cases)
    D.oracle_selfcheck(ck, cases)
    lean_n = D.lean_oracle_check(ck, [c for c in cases
                                      if c.expect is not None],
                                 limit=150 if ck.quick else 2000)
    dist = C.distribution(cases)
    good = [c for c in cases if c.expect is not None]
    seen = set()
    for nthreads in ([1, 3] if ck.quick else [1, 2, 3, 4, 8]):
        res = D.run(ck, exe, good, args=('-d', '-n%d' % nthreads))
        for c, r in zip(good, res):
            evals += 1
            if c.key() not in seen and len(c.expect) > 0:
                seen.add(c.key())
                nontriv += 1
            if r.code() != 'exit0' or r.out != c.expect:
                ck.violation(
                    'conforming stream not decoded: lbzip2 -d -n%d gives %s '
                    '(%d bytes, expected %d) on case %s [%s]' %
                    (nthreads, r.code(), len(r.out), len(c.expect), c.name,
                     c.tag),
                    {'stream_hex': c.data[:200000].hex(), 'case': c.name,
                     'tag': c.tag, 'stderr': r.err[:200].decode('latin1')})
            elif r.err:
                ck.violation('conforming stream decoded but stderr not empty',
                             {'stream_hex': c.data[:200000].hex(),
                              'stderr': r.err[:200].decode('latin1')})
            if len(samples) < 8 and nthreads == 1 and 0 < len(c.data) < 160 \
                    and evals % 11 == 0:
                samples.append({'case': c.name, 'tag': c.tag,
                                'stream_hex': c.data.hex(),
                                'plain_len': len(c.expect)})
ck.log('distribution:', {k: v for k, v in dist.items()})
ck.finish({
    'evaluations': evals, 'distinct_nontrivial': nontriv,
    'rule': 'valid streams: libbz2 output at several levels, structured '
            'streams with random complete tables (2..6, up to 20-bit codes), '
            'random selectors, surplus selectors up to 32767, zig-zag delta '
            'paths, randomised blocks around 617, multi-block (blocks at '
            'arbitrary bit offsets), mixed-level concatenations, trailing '
            'non-header data, unused incomplete table, block at capacity, '
            'repo samples; distinct by SHA-1, non-trivial = non-empty '
            'plaintext',
    'samples': samples, 'oracle_distribution': dist,
    'lean_spec_cross_checked': lean_n, 'exhaustive': False,
}, ['strict oracle cross-checked against libbz2 on every case'])
