#!/usr/bin/env python3
"""C22 — invocation name and option sources select the documented mode.

Theorems: LbzVerif.Props.C22 (over the option tables regenerated from main.c).
Tie: the real lbzip2 binary (built from /repo's working tree) is run under
every invocation name x option spelling x order x environment placement x
no-op option, on FILE operands and on stdin, in a fresh directory; what it did
(exit status, where the output went, plaintext or level-N stream, which
files were created / removed / left alone, -v lines) is compared with
  (a) the Lean model's Config for the same name/environment/arguments
      (correspondence), and
  (b) for the documented simple cases, an independent statement of the
      documented rules written here (the property itself).
"""
import bz2
import hashlib
import os
import re
import shutil
import subprocess
import sys
import time
from concurrent.futures import ThreadPoolExecutor

sys.path.insert(0, os.path.join(os.path.dirname(os.path.abspath(__file__)),
                                '..', 'tools'))
from vlib import Check, batch  # noqa: E402

ck = Check('C22')

THEOREMS = ['documented_tables', 'env_prefix', 'env_prefix_names', 'tokens_spec',
            'mode_last_wins', 'mode_last_wins_list', 'mode_last_token', 'mode_default', 'cat_names',
            'discard_implies_decompress', 'noop_insert', 'noop_insert_list',
            'noop_insert_setup', 'noop_insert_cluster', 'cluster_eq_separate',
            'c_t_conflict', 'c_t_conflict_events', 'c_t_conflict_tokens',
            'cat_t_conflict', 'flags_and_level']

P = b'lbzip2 verification plaintext\n' * 3
B = bz2.compress(P, 9)          # valid in every mode: compress it or expand it
JUNK = b'pre-existing output, must survive without -f\n'

ENVN = ['LBZIP2', 'BZIP2', 'BZIP']
DOC_DECOMP = {'bunzip2', 'lbunzip2', 'bzcat', 'lbzcat'}
DOC_CAT = {'bzcat', 'lbzcat'}


# ------------------------------------------------------------------ encoding
def enc(s):
    b = s.encode() if isinstance(s, str) else s
    if not b:
        return '%'
    return ''.join(chr(c) if (48 <= c <= 57 or 65 <= c <= 90 or 97 <= c <= 122)
                   else '%%%02X' % c for c in b)


def dec(s):
    if s == '%':
        return ''
    return bytes(re.sub(r'%(..)', lambda m: chr(int(m.group(1), 16)),
                        s), 'latin-1').decode()


def driver_line(case):
    parts = ['cli', enc(case['argv0'])]
    for v in case['env']:
        parts.append('-' if v is None else enc(v))
    parts += [enc(a) for a in case['argv']]
    return ' '.join(parts)


def parse_reply(r):
    if r in ('help', 'version', 'fatal'):
        return {'kind': r}
    m = re.fullmatch(r'config d=(\d) om=(\w+) bs=(\d+) f=(\d) k=(\d) s=(\d) '
                     r'u=(\d) v=(\d) S=(\d) n=(\S+) m=(\S+) ops=(\S+)', r)
    if not m:
        return {'kind': 'bad-reply:' + r}
    ops = [] if m.group(12) == '-' else [dec(x) for x in m.group(12).split(',')]
    return {'kind': 'config', 'd': m.group(1) == '1', 'om': m.group(2),
            'bs': int(m.group(3)), 'f': m.group(4) == '1',
            'k': m.group(5) == '1', 's': m.group(6) == '1',
            'v': m.group(8) == '1', 'ops': ops}


# --------------------------------------------------------------- the sandbox
FILES0 = {'f': 'B', 'h': 'B', '4': 'B', '-k': 'B', 'h.bz2': 'junk',
          'h.out': 'junk'}


def classify(data):
    if data == b'':
        return 'empty'
    if data == JUNK:
        return 'junk'
    if data == B:
        return 'B'
    if len(data) % len(P) == 0 and data == P * (len(data) // len(P)):
        return 'Px%d' % (len(data) // len(P))
    if data[:3] == b'BZh':
        try:
            x = bz2.decompress(data)
            if len(x) % len(B) == 0 and x == B * (len(x) // len(B)):
                lv = set(re.findall(rb'BZh(\d)1AY&SY', data))
                return 'Z%sx%d' % ('/'.join(sorted(v.decode() for v in lv)),
                                   len(x) // len(B))
        except Exception:
            pass
    if data.startswith(b'Usage:'):
        return 'usage'
    if data.startswith(b'lbzip2 version'):
        return 'version'
    return 'other:' + hashlib.sha1(data).hexdigest()[:8]


def simulate(cfg):
    """What a process with option values `cfg` does in the sandbox:
    (status, stdout class, files, verbose lines, stderr empty?)."""
    files = dict(FILES0)
    if cfg['kind'] == 'help':
        return (0, 'usage', files, [], True)
    if cfg['kind'] == 'version':
        return (0, 'version', files, [], True)
    if cfg['kind'] == 'fatal':
        return (1, 'empty', files, [], False)
    d, om = cfg['d'], cfg['om']
    word = 'decompressing' if d else 'compressing'
    nout = 0
    warned = False
    vlines = []
    dst = {'stdout': 'stdout', 'discard': 'the bit bucket'}
    if not cfg['ops']:
        if om == 'stdout':
            nout += 1
        vlines.append((word, 'stdin', dst.get(om, '?')))
    for op in cfg['ops']:
        if op not in files:
            warned = True
            continue
        if not d and re.search(r'\.(bz2|tbz2|tbz|tz2)$', op):
            warned = True
            continue
        if om == 'stdout':
            nout += 1
            vlines.append((word, '"%s"' % op, 'stdout'))
        elif om == 'discard':
            vlines.append((word, '"%s"' % op, 'the bit bucket'))
        else:
            out = op + ('.out' if d else '.bz2')
            if out in files:
                if not cfg['f']:
                    warned = True
                    continue
                del files[out]
            files[out] = 'Px1' if d else 'Z%dx1' % cfg['bs']
            vlines.append((word, '"%s"' % op, '"%s"' % out))
            if not cfg['k']:
                del files[op]
    if nout == 0:
        so = 'empty'
    else:
        so = ('Px%d' % nout) if d else 'Z%dx%d' % (cfg['bs'], nout)
    if not cfg['v']:
        vlines = []
    return (4 if warned else 0, so, files, sorted(vlines),
            not warned and not vlines)


def run_real(exe, bindir, idx, case):
    d = os.path.join(ck.tmp, 'r%d' % idx)
    os.mkdir(d)
    try:
        for n, c in FILES0.items():
            with open(os.path.join(d, n), 'wb') as f:
                f.write(B if c == 'B' else JUNK)
        env = {}
        for n, v in zip(ENVN, case['env']):
            if v is not None:
                env[n] = v
        if case['how'] == 'symlink':
            path = os.path.join(bindir, case['argv0'])
            args = [path] + case['argv']
            r = subprocess.run(args, cwd=d, env=env, input=B,
                               stdout=subprocess.PIPE, stderr=subprocess.PIPE,
                               timeout=60)
        else:
            r = subprocess.run([case['argv0']] + case['argv'], executable=exe,
                               cwd=d, env=env, input=B, stdout=subprocess.PIPE,
                               stderr=subprocess.PIPE, timeout=60)
        files = {}
        for n in os.listdir(d):
            with open(os.path.join(d, n), 'rb') as f:
                files[n] = classify(f.read())
        err = r.stderr.decode('latin-1')
        vl = sorted(re.findall(r': (compressing|decompressing) (stdin|".*?") to '
                               r'(stdout|the bit bucket|".*?")\n', err))
        return (r.returncode, classify(r.stdout), files,
                [tuple(x) for x in vl], err == '')
    finally:
        shutil.rmtree(d, ignore_errors=True)


def run_tty(exe, idx, case):
    """Like run_real, with a pseudo-terminal as stdin and/or stdout; returns
    (status, files)."""
    import pty
    import tty
    d = os.path.join(ck.tmp, 't%d' % idx)
    os.mkdir(d)
    fds = []
    try:
        for n, c in FILES0.items():
            with open(os.path.join(d, n), 'wb') as f:
                f.write(B if c == 'B' else JUNK)
        env = {n: v for n, v in zip(ENVN, case['env']) if v is not None}
        tin, tout = case['tty']
        kw = {'stdin': subprocess.PIPE, 'stdout': subprocess.PIPE}
        if tin:
            m, sl = pty.openpty()
            fds += [m, sl]
            kw['stdin'] = sl
        if tout:
            m2, sl2 = pty.openpty()
            tty.setraw(sl2)
            fds += [m2, sl2]
            kw['stdout'] = sl2
        p = subprocess.Popen([case['argv0']] + case['argv'], executable=exe,
                             cwd=d, env=env, stderr=subprocess.PIPE, **kw)
        if not tin:
            try:
                p.stdin.write(B)
                p.stdin.close()
            except OSError:
                pass
        if not tout:
            p.stdout.read()
        p.stderr.read()
        rc = p.wait(timeout=60)
        files = {}
        for n in os.listdir(d):
            with open(os.path.join(d, n), 'rb') as f:
                files[n] = classify(f.read())
        return (rc, files)
    finally:
        for fd in fds:
            try:
                os.close(fd)
            except OSError:
                pass
        shutil.rmtree(d, ignore_errors=True)


# ------------------------------------------------- the documented rules (b)
LONG2SHORT = {'--stdout': 'c', '--decompress': 'd', '--compress': 'z',
              '--fast': '1', '--best': '9', '--force': 'f', '--keep': 'k',
              '--verbose': 'v', '--small': 's', '--quiet': 'q',
              '--repetitive-fast': 'q', '--repetitive-best': 'q',
              '--exponential': 'q'}
DOC_LETTERS = set('dzckf123456789vsq')


def doc_config(pname, toks):
    """Option values according to the usage text, for token lists made only
    of operands (not starting with '-') and the documented simple options
    (no -t, -n, -m, -h, -V, --).  None = outside this fragment."""
    letters = []
    ops = []
    for t in toks:
        if not t.startswith('-'):
            ops.append(t)
        elif t in LONG2SHORT:
            letters.append(LONG2SHORT[t])
        elif t.startswith('--') or len(t) < 2:
            return None
        elif all(c in DOC_LETTERS for c in t[1:]):
            letters += list(t[1:])
        else:
            return None
    d = pname in DOC_DECOMP
    for c in letters:
        if c == 'd':
            d = True
        elif c == 'z':
            d = False
    lv = [int(c) for c in letters if c.isdigit()]
    to_stdout = 'c' in letters or pname in DOC_CAT or not ops
    return {'kind': 'config', 'd': d, 'om': 'stdout' if to_stdout else 'regf',
            'bs': lv[-1] if lv else 9, 'f': 'f' in letters,
            'k': 'k' in letters, 'v': 'v' in letters, 'ops': ops}


def tokens_py(v):
    return [t for t in re.split('[ \t]', v) if t] if v is not None else []


def effective(case):
    out = []
    for v in case['env']:
        out += tokens_py(v)
    return out + case['argv']


def pname_of(argv0):
    return argv0.rsplit('/', 1)[-1]


# ------------------------------------------------------------ case generation
NAMES = ['lbzip2', 'bzip2', 'bunzip2', 'lbunzip2', 'bzcat', 'lbzcat']
ODD_ARGV0 = ['x', 'BZCAT', 'bunzip2x', 'xbzcat', 'some/dir/bzcat', '/lbunzip2',
             './bzip2', 'bzcat/', 'bunzip2/lbzip2', 'lbzip2/bunzip2', '-d']

OPTSETS = [
    [], ['-d'], ['-z'], ['-c'], ['-t'], ['-k'], ['-f'], ['-dz'], ['-zd'],
    ['-d', '-z'], ['-z', '-d'], ['--decompress'], ['--compress'],
    ['--compress', '--decompress'], ['--decompress', '--compress'],
    ['-d', '--compress'], ['--compress', '-d'], ['--stdout'], ['--test'],
    ['--keep'], ['--force'], ['-dc'], ['-cd'], ['-zc'], ['-cz'], ['-tz'],
    ['-zt'], ['-td'], ['-dt'], ['-ct'], ['-tc'], ['-c', '-t'], ['-t', '-c'],
    ['--stdout', '--test'], ['--test', '--stdout'], ['-c', '-d', '-t'],
    ['-t', '-d', '-c'], ['-t', '-z', '-c'], ['-tzc'], ['-tk'], ['-tf'],
    ['-dk'], ['-kd'], ['-dkf'], ['-d', '-k', '-f'], ['-f', '-k', '-d'],
    ['-fkd'], ['-zkf'], ['-kf'], ['-ck'], ['-cf'], ['-dcf'],
    ['-1'], ['-2'], ['-3'], ['-4'], ['-5'], ['-6'], ['-7'], ['-8'], ['-9'],
    ['--fast'], ['--best'], ['-1', '--best'], ['--best', '-3'], ['-19'],
    ['-91'], ['-z5'], ['-5z'], ['--fast', '-z'], ['-d', '-4'],
    ['-v'], ['-vd'], ['-vc'], ['-vt'], ['-vk'], ['--verbose'], ['-S'],
    ['-u'], ['--sequential'], ['-h'], ['--help'], ['-V'], ['-L'],
    ['--version'], ['--license'], ['-dh'], ['-hx'], ['-x'], ['-dx'],
    ['--bogus'], ['-d', '--bogus'], ['--bogus', '-h'], ['-h', '--bogus'],
    ['-ct', '-h'], ['-h', '-ct'], ['-'], ['-', '-d'], ['-d-'], ['--d'],
    ['--Stdout'], ['--stdout='], ['--std'], ['-n', '2'], ['-n2'], ['-dn2'],
    ['-n2d'], ['-n'], ['-dn'], ['-n', '-d'], ['-m', '1'], ['-m1k'], ['-m'],
    ['-n0'], ['-n', '0'], ['-q'], ['-s'], ['--small'], ['--quiet'],
]
OPERANDS = [[], ['f'], ['f', 'h'], ['h'], ['nofile'], ['f', 'nofile', '4']]

NOOPS_TOK = ['-q', '--quiet', '--repetitive-fast', '--repetitive-best',
             '--exponential', '-s', '--small', '-qs', '-sq']
NOOP_LETTERS = ['q', 's']

NUMS = ['1', '2', '3', '0', '00', '01', '+2', '-0', '-1', ' 2', '\t2', '\n2',
        '2 ', '2k ', '', ' ', '+', '-', 'k', 'x', '2x', '2kk', '0x2', '2.0',
        '1e', '64', '4294967296', '4294967295k', '99999999999999999999',
        '9223372036854775808', 'é', '2é']
MEMS = ['1', '1k', '1K', '3m', '3M', '2g', '2G', '1t', '1T', '1p', '1P', '1e',
        '1E', '15E', '16E', '15e', '16e', '16383P', '16384P',
        '18014398509481983k', '18014398509481984k', '9223372036854775807',
        '9223372036854775808', '18446744073709551615', '0', '0k', 'k',
        '7kk', '7x', '7 ', ' 7', '+7', '-7', '-0', '-0k', '07', '7é',
        '1b', '1B', '1z']


def option_positions(argv):
    """Where an extra option may be inserted so that it is read as an option
    (not as the argument of -n/-m, not after `--`): list positions, and for
    each short cluster (index, last character offset at which a letter may be
    inserted: up to just before the first n/m)."""
    okpos, okin = [], []
    state = 'normal'
    for i, t in enumerate(argv):
        if state == 'normal':
            okpos.append(i)
        if state == 'stopped':
            continue
        if state == 'pending':
            state = 'normal'
            continue
        if t == '--':
            state = 'stopped'
        elif t.startswith('--') or not t.startswith('-'):
            pass
        else:
            upto = len(t)
            for j, ch in enumerate(t[1:], 1):
                if ch in 'nm':
                    upto = j
                    if j == len(t) - 1:
                        state = 'pending'
                    break
            okin.append((i, upto))
    if state == 'normal':
        okpos.append(len(argv))
    return okpos, okin


def mk(argv0, how, env, argv):
    return {'argv0': argv0, 'how': how, 'env': list(env), 'argv': list(argv)}


def gen_cases():
    rng = ck.rng
    cases = []          # (group, case, base index or None)
    quick = ck.quick
    # A. names x option sets x operands (argv only)
    for name in NAMES:
        for oi, o in enumerate(OPTSETS):
            for pi, ops in enumerate(OPERANDS):
                if quick and rng.random() > (0.3 if pi < 3 else 0.08):
                    continue
                how = rng.choice(['symlink', 'execa'])
                argv = o + ops if rng.random() < 0.7 else ops + o
                if o and ops and rng.random() < 0.2:
                    argv = ops[:1] + o + ops[1:]
                cases.append(('A', mk(name, how, [None] * 3, argv), None))
    # A'. odd argv[0] spellings
    for a0 in ODD_ARGV0 + ['%s/%s' % (rng.choice(['.', 'a/b', '']), n)
                           for n in NAMES]:
        for o in [[], ['-d'], ['-z'], ['-c'], ['-k'], ['-t']]:
            for ops in [[], ['f']]:
                cases.append(('A0', mk(a0, 'execa', [None] * 3, o + ops), None))
    # A''. `--` and option-looking operands
    for name in ['lbzip2', 'bunzip2', 'bzcat']:
        for argv in [['--', '-k'], ['-k', '--', '-k'], ['--', '-k', 'f'],
                     ['f', '--', '-d'], ['--', '--'], ['-d', '--', 'f', '-k'],
                     ['--'], ['-n', '--', 'f'], ['-n', '4'], ['4'],
                     ['-n', '4', '4'], ['-n4', '4'], ['-kn', '4', 'f'],
                     ['-n', '2', '--', '-k'], ['', 'f'], ['f', '']]:
            cases.append(('A1', mk(name, 'execa', [None] * 3, argv), None))
    # B. environment placement: every token goes to one of the four sources
    seps = [' ', '\t', '  ', ' \t ', '\t\t']
    bsets = [o for o in OPTSETS if 1 <= len(o) <= 3 and '-h' not in o]
    for name in NAMES:
        for o in bsets:
            reps = 1 if quick else 4
            for _ in range(reps):
                if quick and rng.random() > 0.35:
                    continue
                src = [rng.randrange(4) for _ in o]
                if rng.random() < 0.5:
                    src.sort()
                env = []
                for k in range(3):
                    toks = [t for t, s in zip(o, src) if s == k]
                    if not toks:
                        env.append(rng.choice([None, None, '', ' ', '\t ']))
                        continue
                    v = rng.choice(['', ' ', '\t']) + \
                        ''.join(t + rng.choice(seps) for t in toks)
                    if rng.random() < 0.5:
                        v = v.rstrip(' \t')
                    env.append(v)
                argv = [t for t, s in zip(o, src) if s == 3]
                ops = rng.choice(OPERANDS[:4])
                cases.append(('B', mk(name, rng.choice(['symlink', 'execa']),
                                      env, argv + ops), None))
    # B'. operands / special tokens inside the environment
    for name in ['lbzip2', 'lbunzip2', 'lbzcat']:
        for env, argv in [(['f', None, None], []), ([None, 'f h', None], ['-k']),
                          (['-n', None, None], ['2', 'f']),
                          (['-n', '2', None], ['f']), ([None, None, '-n'], []),
                          (['--', None, None], ['-k']), ([None, '--', None], ['-d', 'f']),
                          (['-d', '-z', '-d'], ['f']), (['-d', '-z', None], ['f']),
                          (['-d', None, '-z'], ['-d', 'f']),
                          (['-1', '-2', '-3'], ['f']), (['-1', '-2', '-3'], ['-4', 'f']),
                          (['-c', None, '-t'], []), (['-t', None, None], ['-c']),
                          (['-h', None, None], ['--bogus']), (['--bogus', None, None], ['-h']),
                          (['"-d"', None, None], ['f']), (["'-d'", None, None], ['f']),
                          (['-d\\ -k', None, None], ['f']), (['-d\n-k', None, None], ['f']),
                          (['-k\n', None, None], ['f']), (['-d\r', None, None], ['f'])]:
            cases.append(('B1', mk(name, 'execa', env, argv), None))
    # C. no-op options inserted anywhere (whole tokens and inside clusters)
    cbase = [o for o in OPTSETS if '-h' not in o and '-V' not in o
             and '-L' not in o and len(o) <= 3]
    for name in NAMES:
        for o in cbase:
            for ops in ([], ['f', 'h']):
                if rng.random() > (0.1 if quick else 0.5):
                    continue
                base = mk(name, 'execa', [None] * 3, o + ops)
                bi = len(cases)
                cases.append(('C0', base, None))
                argv = base['argv']
                variants = []
                okpos, okin = option_positions(argv)
                for pos in okpos:
                    for t in NOOPS_TOK:
                        variants.append(argv[:pos] + [t] + argv[pos:])
                for ai, upto in okin:
                    a = argv[ai]
                    for pos in range(1, upto + 1):
                        for l in NOOP_LETTERS:
                            variants.append(argv[:ai] + [a[:pos] + l + a[pos:]]
                                            + argv[ai + 1:])
                rng.shuffle(variants)
                variants = variants[:5 if quick else 10]
                for v in variants:
                    c = mk(name, 'execa', [None] * 3, v)
                    # insertion point may also be an environment variable
                    if v and rng.random() < 0.3 and v[0] in NOOPS_TOK:
                        k = rng.randrange(3)
                        c['env'][k] = v[0]
                        c['argv'] = v[1:]
                    cases.append(('C', c, bi))
    # E. -n / -m argument texts (fatal or not)
    for s in NUMS:
        nm = rng.choice(NAMES)
        cases.append(('E', mk(nm, 'execa', [None] * 3, ['-n', s, 'f']), None))
        if s and not s.startswith('-'):
            cases.append(('E', mk(nm, 'execa', [None] * 3, ['-kn' + s, 'f']), None))
    for s in MEMS:
        nm = rng.choice(NAMES)
        cases.append(('E', mk(nm, 'execa', [None] * 3, ['-m', s, 'f']), None))
        cases.append(('E', mk(nm, 'execa', [None] * 3, ['-dm' + s]), None))
    # D. random token soups (no number above 4 can follow -n: the real
    # program would try to start that many threads)
    voc = ['-d', '-z', '-c', '-t', '-k', '-f', '-q', '-s', '-v', '-u', '-S',
           '-1', '-5', '-9', '-dk', '-kf', '-zc', '-ck', '-dq', '-sd', '-qs9',
           '-n', '-n2', '2', '-m', '-m100k', '3', '4', 'f', 'h', 'f', 'h',
           '-', '--', '-h', '-V', '--help', '--stdout', '--test',
           '--decompress', '--compress', '--fast', '--best', '--force',
           '--keep', '--small', '--sequential', '--verbose', '--quiet',
           '--repetitive-fast', '--repetitive-best', '--exponential', '-x',
           '--bogus', '-n0', '-kn', '-dm', 'nofile', '-k', '-k', '-d', '-z']
    nd = 250 if quick else 6000
    for _ in range(nd):
        n = rng.randrange(0, 6)
        toks = [rng.choice(voc) for _ in range(n)]
        src = sorted(rng.randrange(4) if rng.random() < 0.4 else 3
                     for _ in toks)
        env = []
        for k in range(3):
            tk = [t for t, s in zip(toks, src) if s == k and t != '']
            env.append(rng.choice(seps).join(tk) if tk else None)
        argv = [t for t, s in zip(toks, src) if s == 3]
        a0 = rng.choice(NAMES + NAMES + ODD_ARGV0)
        how = 'symlink' if a0 in NAMES and rng.random() < 0.5 else 'execa'
        cases.append(('D', mk(a0, how, env, argv), None))
    return cases


# ------------------------------------------------------------------- main
def main():
    ck.regen()
    ck.lean(['LbzVerif.Props.C22'])
    ck.require_theorems(['LbzVerif.Props.C22.' + t for t in THEOREMS])
    exe = ck.build_lbzip2(asan=False)
    if exe is None:
        ck.finish({'evaluations': 0})
    bindir = os.path.join(ck.tmp, 'bin')
    os.mkdir(bindir)
    for n in NAMES:
        os.symlink(exe, os.path.join(bindir, n))

    cases = gen_cases()
    ck.log('%d cases generated' % len(cases))
    rc, replies, err = batch([ck.driver()], [driver_line(c) for _, c, _ in cases])
    if rc != 0 or len(replies) != len(cases) or 'bad-op' in replies \
            or 'bad-arg' in replies:
        ck.broken.append('correspondence: driver failed (rc=%s, %d/%d replies) %s'
                         % (rc, len(replies), len(cases), err[-300:]))
        ck.finish({'evaluations': 0})

    t0 = time.time()
    with ThreadPoolExecutor(max_workers=10) as ex:
        obs = list(ex.map(lambda ic: run_real(exe, bindir, ic[0], ic[1][1]),
                          enumerate(cases)))
    ck.log('%d real runs in %.1fs' % (len(cases), time.time() - t0))

    nviol = [0]

    def violation(what, replay):
        nviol[0] += 1
        if nviol[0] <= 10:                 # ten concrete replays are enough
            ck.violation(what, replay)

    seen = set()
    nontrivial = set()
    groups = {}
    kinds = {}
    samples = []
    n_doc = n_model_bad = n_doc_bad = n_noop_bad = 0
    for i, ((grp, case, base), reply, o) in enumerate(zip(cases, replies, obs)):
        key = hashlib.sha1(repr(sorted(case.items())).encode()).hexdigest()
        seen.add(key)
        groups[grp] = groups.get(grp, 0) + 1
        cfg = parse_reply(reply)
        kinds[cfg['kind']] = kinds.get(cfg['kind'], 0) + 1
        if case['argv'] or any(v for v in case['env']):
            nontrivial.add(key)
        if len(samples) < 8 and i % 97 == 0:
            samples.append({'case': case, 'model': reply, 'observed': repr(o)})
        exp = simulate(cfg) if not cfg['kind'].startswith('bad') else None
        pname = pname_of(case['argv0'])
        doc = doc_config(pname, effective(case))
        replay = {'argv0': case['argv0'], 'how': case['how'],
                  'env': dict(zip(ENVN, case['env'])), 'argv': case['argv'],
                  'sandbox': 'files f,h,4,-k = bz2 of plaintext; h.bz2,h.out = junk; same bz2 on stdin',
                  'observed': repr(o), 'model': reply}
        if doc is not None:
            n_doc += 1
            dexp = simulate(doc)
            if dexp != o:
                n_doc_bad += 1
                replay['documented'] = repr(dexp)
                violation('real lbzip2 does not follow the documented '
                          'name/option/environment rules on this invocation',
                          replay)
                continue
        if base is not None:
            # no-op insertion: the real program must behave exactly as without it
            bo = obs[base]
            if bo != o:
                n_noop_bad += 1
                replay['without_noop'] = {'argv': cases[base][1]['argv'],
                                          'observed': repr(bo)}
                violation('inserting an ignored option changed what the '
                          'real lbzip2 did', replay)
                continue
        if exp != o:
            n_model_bad += 1
            if n_model_bad <= 5:
                ck.log('model/real disagreement: %r\n   model %r\n   real  %r'
                       % (case, exp, o))
            if n_model_bad <= 8:
                ck.broken.append('correspondence: Cli model vs real binary '
                                 'on %s' % driver_line(case))
    # T. the two isatty() refusals (model: `clitty`)
    tcases = []
    for name in NAMES:
        for o in [[], ['-d'], ['-z'], ['-c'], ['-dc'], ['-zc'], ['-t'], ['-k'],
                  ['-h'], ['-V'], ['-x'], ['-ct']]:
            for ops in ([], ['f']):
                for tt in ((0, 1), (1, 0), (1, 1)):
                    c = mk(name, 'execa', [None] * 3, o + ops)
                    c['tty'] = tt
                    tcases.append(c)
    if ck.quick:
        ck.rng.shuffle(tcases)
        tcases = tcases[:120]
    rc, treplies, err = batch([ck.driver()], [
        'clitty %d %d %s' % (c['tty'][0], c['tty'][1], driver_line(c)[4:])
        for c in tcases])
    n_tty = n_tty_bad = 0
    if rc != 0 or len(treplies) != len(tcases) or 'bad-op' in treplies \
            or 'bad-arg' in treplies:
        ck.broken.append('correspondence: driver failed on clitty')
    else:
        for ti, (c, r) in enumerate(zip(tcases, treplies)):
            cfg = parse_reply(r)
            if cfg['kind'] == 'config' and not cfg['ops'] and c['tty'][0]:
                continue            # would read the terminal: not run
            n_tty += 1
            exp = simulate(cfg)
            got = run_tty(exe, ti, c)
            if got != (exp[0], exp[2]):
                n_tty_bad += 1
                if n_tty_bad <= 5:
                    ck.log('tty disagreement %r: model %s -> %r, real %r'
                           % (c, r, (exp[0], exp[2]), got))
                    ck.broken.append('correspondence: isatty refusals, %s tty=%s'
                                     % (driver_line(c), c['tty']))
    groups['T'] = n_tty
    # ---- ignored options must not change a single output BYTE: a multi-block
    # input with runs, on which the options that DO matter (-u, the level) are
    # visible in the compressed bytes (control), so that an ignored option
    # taking the effect of a real one cannot hide behind "still valid"
    import subprocess as _sp
    rr = ck.rng
    body = b''.join(bytes([rr.randrange(97, 105)]) * rr.choice([1, 1, 2, 3, 4, 5, 9, 40])
                    for _ in range(60000))[:260000]

    def comp(args, env=None):
        e = {k: v for k, v in os.environ.items()
             if not k.startswith('LBZIP2') and k not in ('BZIP2', 'BZIP')}
        e.update(env or {})
        r = _sp.run([exe] + args, input=body, capture_output=True, env=e, timeout=120)
        return (r.returncode, r.stdout, r.stderr)
    ref = comp(['-1'])
    ctl = comp(['-1', '-u'])
    n_bytes = 0
    if ref[0] != 0 or ctl[0] != 0 or ref[1] == ctl[1]:
        ck.broken.append('no-op byte test: control failed (-u does not change '
                         'the bytes of the probe input)')
    else:
        probes = []
        for t in NOOPS_TOK:
            probes += [([t, '-1'], None), (['-1', t], None)]
            for ev in ('LBZIP2', 'BZIP2', 'BZIP'):
                probes.append((['-1'], {ev: t}))
        probes += [(['-1s'], None), (['-s1'], None), (['-1q'], None),
                   (['-qs1'], None), (['-1', '-sq'], None)]
        for args, env in probes:
            got = comp(args, env)
            n_bytes += 1
            if got != ref:
                d = next((i for i in range(min(len(got[1]), len(ref[1])))
                          if got[1][i] != ref[1][i]), min(len(got[1]), len(ref[1])))
                violation('an option documented as ignored changed the output: '
                          'lbzip2 %s (env %s) gives status %d, %d bytes, first '
                          'difference at byte %d of the stream written without '
                          'it (%d bytes)%s' % (
                              ' '.join(args), env, got[0], len(got[1]), d, len(ref[1]),
                              '; the output equals that of -u' if got[1] == ctl[1] else ''),
                          {'argv': ['lbzip2'] + args, 'env': env or {},
                           'stdin': 'seeded run-structured text, 260000 bytes '
                                    '(VERIF_SEED=%d ./check C22 regenerates it)' % ck.seed,
                           'stdin_head_hex': body[:200].hex(),
                           'observed': 'status %d, %d bytes' % (got[0], len(got[1])),
                           'without_noop': 'status %d, %d bytes' % (ref[0], len(ref[1]))})
    groups['noop-bytes'] = n_bytes
    ck.log('groups %s; model outcomes %s; documented-rule cases %d'
           % (groups, kinds, n_doc))
    ck.finish({
        'evaluations': len(cases) + n_tty,
        'distinct_nontrivial': len(nontrivial),
        'rule': 'distinct (argv0, exec style, environment, argv) with at '
                'least one option/operand token',
        'distinct_cases': len(seen),
        'groups': groups, 'model_outcomes': kinds,
        'documented_rule_cases': n_doc,
        'disagreements': {'model': n_model_bad, 'documented': n_doc_bad,
                          'noop': n_noop_bad, 'violations_total': nviol[0]},
        'samples': samples, 'exhaustive': False,
    })


main()
