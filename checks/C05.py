#!/usr/bin/env python3
"""C05 — decompression never accepts malformed data or emits wrong bytes.

Theorems: Props/C05/*.lean (delta windows sound w.r.t. bit-by-bit reference,
make_tree Kraft test and lookup, sliding-list MTF, emitter = un-RLE, parse()
step function facts) over the regenerated tables.  Tie: translator for the
tables, parse switch, magics, 18001; in-process correspondence of the hand
models (libraries checks/w10_mtf.py, w11_prefix.py, w12_emit.py when
present); per run the structured malformed-stream campaign: lbzip2 -d exits
0  ==>  the strict oracle accepts and the bytes are the reference decoding."""
import os
import sys
sys.path.insert(0, os.path.join(os.path.dirname(os.path.abspath(__file__)),
                                '..', 'tools'))
sys.path.insert(0, os.path.dirname(os.path.abspath(__file__)))
from vlib import Check  # noqa: E402
import camp_decode as C  # noqa: E402
import decode_run as D  # noqa: E402
import inproc  # noqa: E402

ck = Check('C05')
ck.regen()
mods = ck.props_modules()
if mods:
    ck.lean(mods)
    ck.require_theorems([
        'LbzVerif.Props.C05.deltaWindow_sound',
        'LbzVerif.Props.C05.Tree.makeTree_kraft',
        'LbzVerif.Props.C05.Mtf.imtf_sound',
        'LbzVerif.Props.C05.Mtf.runAccum_sound',
        'LbzVerif.Props.C05.emit_sound',
        'LbzVerif.Props.C05.Parse.magic_enforced',
        'LbzVerif.Props.C05.Parse.eof_rule',
        'LbzVerif.Props.C05.Tree.makeTree_sound',
        'LbzVerif.Props.C05.Block.retrieve_sound',
        'LbzVerif.Props.C05.Block.retrieve_rejects_malformed',
        'LbzVerif.Props.C05.BlockDecode.block_decode_sound',
        'LbzVerif.Props.C05.ibwt_sound_all',
        'LbzVerif.Props.C05.File.expand_sound',
        'LbzVerif.Props.C05.File.expand_rejects_malformed',
    ])
inproc.run_libs(ck, ['w12_emit', 'w11_prefix', 'w10_mtf', 'w15_retrieve',
                     'w22_expand'])
exe = ck.build_lbzip2(asan=False)
evals = nontriv = 0
samples = []
dist = {}
lean_n = None
if exe:
    cases, big = D.build_cases(ck)
    D.oracle_selfcheck(ck, cases)
    lean_n = D.lean_oracle_check(ck, cases, limit=250 if ck.quick else 3000)
    dist = C.distribution(cases)
    for nthreads in ([2] if ck.quick else [1, 2, 4]):
        res = D.run(ck, exe, cases, args=('-d', '-n%d' % nthreads))
        for c, r in zip(cases, res):
            evals += 1
            if c.expect is None:
                nontriv += 1 if nthreads == 2 else 0
            if r.code() == 'exit0':
                if c.expect is None:
                    ck.violation(
                        'lbzip2 -d accepted a stream the strict format '
                        'rejects (%s; case %s)' % (c.why, c.name),
                        {'stream_hex': c.data.hex(), 'case': c.name,
                         'tag': c.tag, 'oracle_reason': c.why,
                         'cmd': 'lbzip2 -d -n%d < stream' % nthreads})
                elif r.out != c.expect:
                    ck.violation(
                        'lbzip2 -d exit 0 with bytes different from the '
                        'reference decoding (case %s)' % c.name,
                        {'stream_hex': c.data[:100000].hex(), 'case': c.name,
                         'tag': c.tag, 'expected_len': len(c.expect),
                         'got_len': len(r.out)})
            if len(samples) < 8 and c.expect is None and nthreads == 2 and \
                    len(c.data) < 200 and evals % 37 == 0:
                samples.append({'case': c.name, 'tag': c.tag,
                                'oracle': c.why, 'lbzip2': r.code(),
                                'stream_hex': c.data.hex()})
    # second pass: every case once more under a random configuration
    # (buffer boundaries inside runs, tables, headers ...)
    if exe:
        res, confs = D.run_configs(ck, exe, cases)
        for c, r, (n, env) in zip(cases, res, confs):
            evals += 1
            if r.code() == 'exit0' and (c.expect is None or
                                        r.out != c.expect):
                ck.violation(
                    'lbzip2 -d accepted malformed data or emitted wrong '
                    'bytes under configuration %s -n%d (case %s, oracle: %s)'
                    % (env, n, c.name, c.why or 'accepts'),
                    {'stream_hex': c.data[:200000].hex(), 'case': c.name,
                     'tag': c.tag, 'oracle_reason': c.why, 'env': env, 'n': n})
ck.log('oracle distribution:', dist)
ck.finish({
    'evaluations': evals, 'distinct_nontrivial': nontriv,
    'rule': 'structured valid streams + one crafted defect per malformed '
            'case (field-aimed bit flips, delta excursions, bad tables, '
            'missing EOB/count, capacity+1, truncation at every byte, '
            'trailing headers, byte mutations); distinct by SHA-1 of the '
            'stream, non-trivial = rejected by the strict oracle',
    'samples': samples, 'oracle_distribution': dist,
    'lean_spec_cross_checked': lean_n,
    'exhaustive': False,
}, ['strict oracle tools/bzformat.py cross-checked against libbz2 on every '
    'accepted case and against the Lean Spec on the small cases'])
