#!/usr/bin/env python3
"""C14 - Block-header scanner matches exactly the header pattern.

Proof side : lake build + axiom audit of LbzVerif.Props.C14 (lps_step,
             mini_is_delta, big_is_mini8, scan_correct) against the tables
             regenerated from src/scantab.h.
Tie        : (T) tables: every entry of mini_dfa / big_dfa as compiled into the
             C harness == the Lean model's entry == the KMP transition computed
             here from the definition (exhaustive);
             (H) scan(): real scan() (harness/h_scan.c, ASan+UBSan, asserts on)
             vs Model.Scan.scan (lbzdrv) vs a first-occurrence oracle written
             independently below, on random and planted bit streams.
"""
import hashlib
import os
import sys

sys.path.insert(0, os.path.join(os.path.dirname(os.path.abspath(__file__)),
                                '..', 'tools'))
from vlib import Check, batch  # noqa: E402

PAT = 0x314159265359
PBITS = format(PAT, '048b')
M32 = 0xFFFFFFFF


# ----------------------------------------------------------- spec in python
def lps(w):
    """longest k <= 48 with PBITS[:k] a suffix of w (definition, brute force)"""
    for k in range(min(48, len(w)), -1, -1):
        if w.endswith(PBITS[:k]):
            return k
    return 0


def delta(s, b):
    return lps(PBITS[:s] + b)


DELTA = [[delta(s, '0'), delta(s, '1')] for s in range(48)]


def mini8(s, c):
    for k in range(8):
        if s == 48:
            return 48
        s = DELTA[s][(c >> (7 - k)) & 1]
    return s


def stream_bits(live, buff, words):
    return format(buff, '064b')[:live] + ''.join(format(w, '032b')
                                                 for w in words)


def eff_start(live, skip, nwords):
    """where the code really starts looking (see Model.Scan.effStart)"""
    if skip > live:
        k = (((skip - live) + 31) & M32) // 32
        return live + 32 * min(k, nwords)
    return 0


def oracle(live, buff, skip, words):
    """-> (e, i or None): first header candidate (48 pattern bits + 32 bits)
    lying wholly inside bits[e:], i = its end index relative to e."""
    bits = stream_bits(live, buff, words)
    e = eff_start(live, skip, len(words))
    tail = bits[e:]
    k = tail.find(PBITS)
    if k < 0 or k + 80 > len(tail):
        return e, None, tail
    return e, k + 80, tail


def max_state(tail):
    s = m = 0
    for ch in tail:
        if s == 48:
            break
        s = DELTA[s][ch == '1']
        m = max(m, s)
    return m


# ------------------------------------------------------------ case building
def pack(bits, live):
    """bit string (length = live + 32 n) -> (live, buff, words)"""
    assert (len(bits) - live) % 32 == 0
    head = bits[:live]
    buff = int(head.ljust(64, '0'), 2) if live else 0
    rest = bits[live:]
    words = [int(rest[i:i + 32], 2) for i in range(0, len(rest), 32)]
    return live, buff, words


def background(rng, n):
    kind = rng.randrange(6)
    if kind == 0:
        return '0' * n
    if kind == 1:
        return '1' * n
    if kind == 2:                      # repeated pattern prefixes (near misses)
        s = ''
        while len(s) < n:
            k = rng.choice([rng.randrange(1, 48), 47, 46, 24, 40])
            flip = '1' if PBITS[k] == '0' else '0'
            s += PBITS[:k] + flip
        return s[:n]
    if kind == 3:                      # pattern with one bit flipped, repeated
        s = ''
        while len(s) < n:
            j = rng.randrange(48)
            s += PBITS[:j] + ('1' if PBITS[j] == '0' else '0') + PBITS[j + 1:]
            s += '0' * rng.randrange(0, 5)
        return s[:n]
    return format(rng.getrandbits(n), '0%db' % n) if n else ''


def plant(bits, o, what=PBITS):
    if o < 0 or o + len(what) > len(bits):
        return bits
    return bits[:o] + what + bits[o + len(what):]


SKIPS_BIG = [M32, M32 - 1, M32 - 30, M32 - 31, M32 - 32, M32 - 63, 1 << 31,
             (1 << 31) + 17, 4096, 100000]


def rand_skip(rng, live):
    r = rng.randrange(20)
    if r < 6:
        return 0
    if r < 16:
        return rng.randrange(0, 201)
    if r < 18:
        return rng.choice([live, live + 1, max(live - 1, 0), live + 32,
                           live + 33, live + 31, live + 64, live + 65])
    return rng.choice(SKIPS_BIG)


def gen_random_case(rng):
    if rng.randrange(8) == 0:
        # pattern ends inside the buffered bits: ACCEPT in the first bit loop,
        # then bits_need(32) with enough / one more word / nothing left
        live = rng.randrange(48, 64)
        n = rng.choice([0, 0, 1, 1, 2, 3])
        total = live + 32 * n
        bits = plant(background(rng, total), rng.randrange(0, live - 47))
        skip = rng.choice([0, 0, rng.randrange(0, live + 1)])
        live, buff, words = pack(bits, live)
        return live, buff, skip, words
    live = rng.randrange(64)
    n = rng.choice([0, 0, 1, 1, 2, 3, 3, 4, 5, 6, 8, 10, 12])
    total = live + 32 * n
    bits = background(rng, total)
    skip = rand_skip(rng, live)
    e = eff_start(live, skip, n)
    kind = rng.randrange(10)
    if kind <= 2 and total >= 48:           # one pattern anywhere
        bits = plant(bits, rng.randrange(0, total - 47))
    elif kind == 3 and total >= 48:         # pattern near the end of block
        t = rng.randrange(0, 41)            # bits available after pattern
        bits = plant(bits, total - 48 - t)
    elif kind == 4 and total - e >= 48:     # pattern after effective start
        bits = plant(bits, rng.randrange(e, total - 47))
    elif kind == 5:                         # straddling / before eff. start
        bits = plant(bits, e - rng.randrange(0, 49))
        if rng.randrange(2) and total - e >= 48:
            bits = plant(bits, rng.randrange(e, total - 47))
    elif kind == 6 and total >= 96:         # two patterns, maybe within 80 bits
        o = rng.randrange(0, total - 95)
        bits = plant(bits, o)
        bits = plant(bits, o + 48 + rng.randrange(0, 40))
    elif kind == 7 and total >= 96:         # prefix of pattern glued to pattern
        k = rng.randrange(1, 48)
        o = rng.randrange(0, total - 95)
        bits = plant(bits, o, PBITS[:k] + PBITS)
    elif kind == 8:                         # plain random bits
        bits = format(rng.getrandbits(total), '0%db' % total) if total else ''
    # kind 9: background only
    live, buff, words = pack(bits, live)
    return live, buff, skip, words


def systematic_cases(rng, quick):
    """pattern at every bit offset 0..63 for every live 0..63; pattern at the
    end of the block with 0..31 (and a few more) trailing bits missing."""
    out = []
    for live in range(64):
        for o in range(64):
            n = 5
            total = live + 32 * n
            bits = background(rng, total)
            bits = plant(bits, o)
            lv, buff, words = pack(bits, live)
            out.append((lv, buff, 0, words))
            if not quick or (live + o) % 4 == 0:
                out.append((lv, buff, rand_skip(rng, live), words))
        for missing in range(0, 34):
            n = rng.choice([2, 3, 4])
            total = live + 32 * n
            bits = background(rng, total)
            bits = plant(bits, total - 48 - (32 - missing))
            lv, buff, words = pack(bits, live)
            out.append((lv, buff, 0, words))
    # all skips 0..200 against a fixed layout for a few lives
    for live in ([0, 1, 31, 32, 33, 63] if quick else range(64)):
        for skip in range(0, 201):
            n = 9
            total = live + 32 * n
            bits = background(rng, total)
            bits = plant(bits, rng.randrange(0, total - 47))
            lv, buff, words = pack(bits, live)
            out.append((lv, buff, skip, words))
    return out


def req(case):
    live, buff, skip, words = case
    return '%d %016x %d %s' % (live, buff, skip,
                               ','.join(map(str, words)) if words else '-')


# ------------------------------------------------------------------- judging
def parse_reply(r):
    p = r.split(' ')
    if len(p) != 4 or p[0] not in ('OK', 'MORE'):
        return None
    try:
        return p[0], int(p[1]), int(p[2], 16), int(p[3])
    except ValueError:
        return None


def judge(case, reply):
    """Evaluate the PROPERTY on one reply (from C or from the model).
    Returns None if fine, else a description."""
    live, buff, skip, words = case
    e, i, tail = oracle(live, buff, skip, words)
    pr = parse_reply(reply)
    if pr is None:
        return 'unparsable reply %r' % reply
    tag, l2, b2, d2 = pr
    if i is None:
        if tag != 'MORE':
            return 'reports a candidate but none lies inside the block'
        if (l2, b2, d2) != (0, 0, len(words)):
            return 'MORE without consuming the block: %r' % (pr,)
        return None
    if tag != 'OK':
        return 'misses the candidate ending at bit %d (+%d)' % (i, e)
    if not (0 <= d2 <= len(words)) or l2 > 64:
        return 'position out of range: %r' % (pr,)
    if l2 < 64 and b2 & ((1 << (64 - l2)) - 1):
        return 'dirty low bits in buff: %r' % (pr,)
    rest = format(b2, '064b')[:l2] + ''.join(format(w, '032b')
                                             for w in words[d2:])
    if rest != tail[i:]:
        return ('positioned %d bits before the end, expected %d' %
                (len(rest), len(tail) - i))
    return None


def classify(case):
    live, buff, skip, words = case
    e, i, tail = oracle(live, buff, skip, words)
    tags = []
    tags.append('skip>live' if skip > live else 'skip<=live')
    if skip > live:
        k = (((skip - live) + 31) & M32) // 32
        tags.append('clamped' if k > len(words) else 'not-clamped')
    if i is None:
        k = tail.find(PBITS)
        inbuf = (live - e) if e < live else 0
        tags.append('MORE:none' if k < 0 else
                    'MORE:truncated:bitloop' if k + 48 <= inbuf else
                    'MORE:truncated:wordloop')
    else:
        pend = i - 32                     # pattern end relative to e
        inbuf = (live - e) if e < live else 0
        if pend <= inbuf:
            tags.append('OK:bitloop:buffered32' if inbuf - pend >= 32
                        else 'OK:bitloop:load')
        else:
            tags.append('OK:wordloop:o%d' % ((pend - inbuf - 1) % 32 // 8 * 8))
    return tags, max_state(tail)


# ------------------------------------------------------------- chunk worker
def run_chunk(job):
    """Runs one chunk through the C harness, the Lean driver and the python
    oracle.  Pure function of its arguments (picklable for the pool)."""
    import random
    h, drv, cases, seed, count = job
    if cases is None:
        rng = random.Random(seed)
        cases = [gen_random_case(rng) for _ in range(count)]
    res = {'evaluations': 0, 'seen': set(), 'nontrivial': set(), 'mism': 0,
           'dist': {}, 'samples': [], 'log': [], 'violations': [],
           'broken': []}
    dist = res['dist']
    reqs = [req(c) for c in cases]
    rc_c, out_c, err_c = batch([h], ['scan ' + r for r in reqs], timeout=3000)
    rc_m, out_m, err_m = batch(
        [drv], ['scan ' + r for r in reqs] + ['scan.occ ' + r for r in reqs],
        timeout=3000)
    if rc_m != 0 or len(out_m) != 2 * len(cases):
        res['broken'].append('correspondence: driver died (rc %s): %s' %
                             (rc_m, err_m[-300:]))
        return res
    c_died = rc_c != 0 or len(out_c) != len(cases)
    for k, case in enumerate(cases):
        if k >= len(out_c):
            # the harness aborted on this request (sanitizer / assert)
            res['violations'].append((
                'scan() aborted (sanitizer or assertion): ' +
                err_c[-400:].replace('\n', ' | '),
                {'request': 'scan ' + reqs[k],
                 'how': 'echo "<request>" | h_scan (harness/h_scan.c)'}))
            break
        res['evaluations'] += 1
        hsh = hashlib.sha1(reqs[k].encode()).digest()[:10]
        tags, ms = classify(case)
        if hsh not in res['seen']:
            res['seen'].add(hsh)
            if ms >= 16:
                res['nontrivial'].add(hsh)
        tags.append('live=%d' % case[0])
        tags.append('state>=%02d' % (ms // 8 * 8))
        for t in tags:
            dist[t] = dist.get(t, 0) + 1
        if len(res['samples']) < 8 and ms == 48 and k % 977 == 0:
            res['samples'].append({'request': 'scan ' + reqs[k],
                                   'reply': out_c[k]})
        why_c = judge(case, out_c[k])
        if why_c is not None and len(res['violations']) < 5:
            res['violations'].append((
                'scan() ' + why_c,
                {'request': 'scan ' + reqs[k], 'c_reply': out_c[k],
                 'model_reply': out_m[k],
                 'how': 'echo "<request>" | h_scan (harness/h_scan.c)'}))
        if out_m[k] != out_c[k]:
            res['mism'] += 1
            if res['mism'] <= 3:
                res['log'].append(
                    'C/model differ on: scan %s\n   C: %s\n   M: %s' %
                    (reqs[k], out_c[k], out_m[k]))
            if why_c is None and len(res['broken']) < 4:
                res['broken'].append(
                    'correspondence: scan %s: C "%s" vs model "%s"' %
                    (reqs[k][:200], out_c[k], out_m[k]))
        # Lean Spec oracle vs the python oracle
        e, i, _ = oracle(*case)
        want = '%d %s' % (e, 'none' if i is None else i)
        if out_m[len(cases) + k] != want and len(res['broken']) < 4:
            res['broken'].append('Spec oracle: occ %s: lean "%s", python "%s"'
                                 % (reqs[k][:200], out_m[len(cases) + k],
                                    want))
    if c_died and not res['violations']:
        res['broken'].append('correspondence: harness died: ' + err_c[-300:])
    return res


# --------------------------------------------------------------------- main
def main():
    ck = Check('C14')
    ck.regen()
    ck.lean(['LbzVerif.Props.C14'])
    ck.require_theorems(['LbzVerif.Props.C14.lps_step',
                         'LbzVerif.Props.C14.mini_is_delta',
                         'LbzVerif.Props.C14.big_is_mini8',
                         'LbzVerif.Props.C14.scan_correct'])
    h = ck.cc('h_scan', ['harness/h_scan.c'])
    drv = ck.driver()
    if h is None or not os.path.exists(drv):
        if not os.path.exists(drv):
            ck.broken.append('driver missing: ' + drv)
        ck.finish({'evaluations': 0, 'distinct_nontrivial': 0,
                   'rule': 'n/a', 'samples': [], 'exhaustive': False})

    evaluations = 0

    # ---- (T) tables, exhaustive: C == model == definition -----------------
    lines = []
    for s in range(48):
        for b in (0, 1):
            lines.append('scan.mini %d %d' % (s, b))
    for s in range(49):
        for c in range(256):
            lines.append('scan.big %d %d' % (s, c))
    nd = len(lines)
    dl = ['scan.delta %d %d' % (s, b) for s in range(49) for b in (0, 1)]
    rc_c, out_c, err_c = batch([h], lines)
    rc_m, out_m, err_m = batch([drv], lines + dl)
    if rc_c != 0 or len(out_c) != nd:
        ck.broken.append('correspondence: harness failed on table dump: ' +
                         err_c[-300:])
    elif rc_m != 0 or len(out_m) != nd + len(dl):
        ck.broken.append('correspondence: driver failed on table dump: ' +
                         err_m[-300:])
    else:
        bad_tables = 0
        for idx, ln in enumerate(lines):
            _, a, b = ln.split()
            a, b = int(a), int(b)
            want = DELTA[a][b] if ln.startswith('scan.mini') else mini8(a, b)
            evaluations += 1
            if out_c[idx] != str(want):
                bad_tables += 1
                if bad_tables <= 3:
                    ck.violation(
                        'scanner table entry differs from the KMP transition '
                        'of the header pattern: %s gives %s, expected %d' %
                        (ln, out_c[idx], want),
                        {'table_entry': ln, 'c_value': out_c[idx],
                         'expected': want,
                         'how': 'harness/h_scan.c: "%s"' % ln})
            if out_m[idx] != out_c[idx]:
                ck.broken.append('correspondence: table %s: C %s, model %s' %
                                 (ln, out_c[idx], out_m[idx]))
                break
        for j, ln in enumerate(dl):
            _, a, b = ln.split()
            a, b = int(a), int(b)
            want = delta(a, '01'[b])
            evaluations += 1
            if out_m[nd + j] != str(want):
                ck.broken.append('Spec delta %s: lean %s, python %d' %
                                 (ln, out_m[nd + j], want))
                break
        ck.log('tables: %d entries compared (C, model, definition); '
               '%d wrong' % (nd, bad_tables))

    # ---- (H) scan(): campaign --------------------------------------------
    target = 20000 if ck.quick else 1000000
    sysc = systematic_cases(ck.rng, ck.quick)
    nsys = len(sysc)
    CH = 20000 if ck.quick else 50000
    jobs = []
    for lo in range(0, nsys, CH):
        jobs.append((h, drv, sysc[lo:lo + CH], None, 0))
    left = max(0, target - nsys)
    while left > 0:
        m = min(CH, left)
        jobs.append((h, drv, None, ck.rng.getrandbits(64), m))
        left -= m
    ck.log('campaign: %d cases (%d systematic) in %d chunk(s)' %
           (max(target, nsys), nsys, len(jobs)))
    if len(jobs) > 2:
        import multiprocessing
        with multiprocessing.Pool(min(12, os.cpu_count() or 2)) as pool:
            results = pool.map(run_chunk, jobs)
    else:
        results = [run_chunk(jb) for jb in jobs]

    dist = {}
    seen = set()
    nontrivial = set()
    samples = []
    reported = 0
    mism = 0
    for res in results:
        evaluations += res['evaluations']
        seen |= res['seen']
        nontrivial |= res['nontrivial']
        mism += res['mism']
        for k, v in res['dist'].items():
            dist[k] = dist.get(k, 0) + v
        for smp in res['samples']:
            if len(samples) < 8:
                samples.append(smp)
        for ln in res['log'][:3]:
            ck.log(ln)
        for what, replay in res['violations']:
            reported += 1
            if reported <= 5:
                ck.violation(what, replay)
        for b in res['broken']:
            if len(ck.broken) < 12:
                ck.broken.append(b)

    lives = sum(1 for k in dist if k.startswith('live='))
    ck.log('distribution: ' + ', '.join(
        '%s=%d' % (k, dist[k]) for k in sorted(dist)
        if not k.startswith('live=')))
    ck.log('live values covered: %d/64; distinct cases %d; non-trivial %d; '
           'C/model mismatches %d; property failures %d' %
           (lives, len(seen), len(nontrivial), mism, reported))
    ck.finish({
        'evaluations': evaluations,
        'distinct_nontrivial': len(nontrivial),
        'distinct': len(seen),
        'rule': 'non-trivial = the KMP automaton of the pattern reaches state '
                '>= 16 somewhere after the effective start (a planted pattern '
                'or a near miss of at least 16 bits)',
        'samples': samples,
        'exhaustive': False,
        'tables_exhaustive': True,
        'distribution': {k: v for k, v in dist.items()
                         if not k.startswith('live=')},
        'live_values_covered': lives,
        'c_model_mismatches': mism,
    })


if __name__ == '__main__':
    main()
