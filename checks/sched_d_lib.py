#!/usr/bin/env python3
"""sched_d_lib - helpers of work package W7 (expansion scheduler, SchedD).

Model side : the Lean driver commands of lean/Driver/CmdSchedD.lean
             (schedd-bfs / schedd-find / schedd-seq / schedd-accept /
             schedd-acceptw), spoken to through `Drv` (one request line in, one
             reply line out).
Code side  : the real lbzip2 built from a source tree with the verification
             hooks (-DKJN_LBZIP2_VERIF) and run with LBZIP2_VERIF_TRACE, whose
             scheduler trace is converted by `trace_to_events` into the compact
             form `schedd-accept` takes.

Stdlib only; nothing here writes outside the `tmpdir` it is given.
`python3 sched_d_lib.py` runs a self-test (scratch in a mkdtemp, removed).

Trace format notes (src/process.c verif_trace_event, src/expand.c dump hook):
  * K is I (init), R (worker starts a task), U (sched_unlock; name = the
    next_task it selected or `-`), W (worker calls xwait / leaves its loop),
    F (final), and optionally S (`S t=<tid> signal`: xsignal inside
    sched_unlock, logged before that unlock's U line; ignored by schedd-accept,
    checked by schedd-acceptw when present).
  * a line is  `<K> t=<tid> <name> wu= os= eof= pt= pd= in= scan= retr= emit=
    reord= order= unord= head= tail=`;  head/tail are word offsets and are
    passed through unchanged.
  * the final `F t=0 term` line is printed after expand.c's uninit() cleared
    the dump hook, so it carries only wu/os/eof.  Fields missing from a line
    are filled in from the previous line (uninit()'s own VERIF_ASSERTs check
    exactly those fields); with no previous line they are 0.
  * a run that aborted / was killed has no F line and may end in a cut line
    (stdio buffer); an unterminated or malformed last line is dropped.  The
    unflushed tail (up to 4 KiB) of such a trace is LOST unless the run used
    run_trace(preload=build_flush_shim(tmpdir)).
"""
import os
import random
import re
import select
import shutil
import subprocess
import sys
import time

HERE = os.path.dirname(os.path.abspath(__file__))
PRIVATE_DRV = os.path.join(HERE, '..', 'lean', '.lake', 'build', 'bin',
                           'lbzdrv-w7')
FINAL_DRV = os.path.join(HERE, '..', 'lean', '.lake', 'build', 'bin', 'lbzdrv')

CDEFS = ['-DKJN_LBZIP2_VERIF', '-D_XOPEN_SOURCE=700', '-D_FILE_OFFSET_BITS=64',
         '-DPACKAGE_NAME="lbzip2"', '-DPACKAGE_VERSION="devel"']

FIELDS = ['wu', 'os', 'eof', 'pt', 'pd', 'in', 'scan', 'retr', 'emit',
          'reord', 'order', 'unord', 'head', 'tail']


def default_driver():
    """$LBZDRV, else the private W7 build (tag w7) if present, else the final
    driver."""
    e = os.environ.get('LBZDRV')
    if e:
        return e
    for p in (PRIVATE_DRV, FINAL_DRV):
        if os.path.exists(p):
            return os.path.normpath(p)
    return os.path.normpath(FINAL_DRV)


# ------------------------------------------------------------------- driver
class Drv:
    """The Lean driver as a long-lived child: ask(line) -> reply line.

    The generated Driver/Main.lean prints replies without flushing, so on a
    plain pipe a reply only arrives when the driver exits.  The child is
    therefore run under `stdbuf -oL` (its stdout is C stdio), or, without
    stdbuf, with a raw pty as stdout; both make stdout line buffered.  A
    driver that flushes by itself works the same way.  `ask` gives up (kills
    the child, raises) after `timeout` seconds without a complete reply."""

    def __init__(self, path=None, timeout=1800):
        self.path = path or default_driver()
        self.timeout = timeout
        self.buf = b''
        stdbuf = shutil.which('stdbuf')
        if stdbuf:
            self.p = subprocess.Popen([stdbuf, '-oL', self.path],
                                      stdin=subprocess.PIPE,
                                      stdout=subprocess.PIPE)
            self.rfd = self.p.stdout.fileno()
        else:
            import pty
            import tty
            m, s = pty.openpty()
            tty.setraw(s)
            self.p = subprocess.Popen([self.path], stdin=subprocess.PIPE,
                                      stdout=s)
            os.close(s)
            self.rfd = m

    def ask(self, line, timeout=None):
        self.p.stdin.write(line.encode() + b'\n')
        self.p.stdin.flush()
        end = time.time() + (timeout or self.timeout)
        while b'\n' not in self.buf:
            left = end - time.time()
            r = select.select([self.rfd], [], [], max(left, 0))[0] \
                if left > 0 else []
            try:
                chunk = os.read(self.rfd, 65536) if r else None
            except OSError:              # pty: EIO once the child is gone
                chunk = b''
            if not chunk:
                self.p.kill()
                raise RuntimeError('driver %s %s on: %s' % (
                    self.path, 'died' if chunk == b'' else 'timed out',
                    line[:200]))
            self.buf += chunk
        r, _, self.buf = self.buf.partition(b'\n')
        return r.decode().rstrip('\r')

    def close(self):
        try:
            self.p.stdin.close()
        except Exception:
            pass
        try:
            self.p.wait(timeout=10)
        except Exception:
            self.p.kill()
            self.p.wait()
        if self.p.stdout is not None:
            self.p.stdout.close()
        else:
            try:
                os.close(self.rfd)
            except OSError:
                pass
        return self.p.returncode

    def __enter__(self):
        return self

    def __exit__(self, *a):
        self.close()


def _clist(items):
    items = list(items)
    return ','.join(items) if items else '-'


def cfg_args(n, tin, tout, W, T, ultra, parse, retr, cands):
    """The 9 configuration arguments shared by schedd-bfs/-find/-seq.
    parse: [('h',p,base) | ('f',p,upto,ok) | ('e',p,upto)]
    retr : [(base, ok, end, nb, fin)]       cands: [int]"""
    ps = []
    for it in parse:
        k = it[0]
        if k == 'h':
            ps.append('%d:h:%d' % (it[1], it[2]))
        elif k == 'f':
            ps.append('%d:f:%d:%d' % (it[1], it[2], int(bool(it[3]))))
        elif k == 'e':
            ps.append('%d:e:%d' % (it[1], it[2]))
        else:
            raise ValueError('bad parse item %r' % (it,))
    rs = ['%d:%d:%d:%d:%d' % (b, int(bool(ok)), e, nb, int(bool(fin)))
          for (b, ok, e, nb, fin) in retr]
    return [str(n), str(tin), str(tout), str(W), str(T), str(int(bool(ultra))),
            _clist(ps), _clist(rs), _clist(str(c) for c in cands)]


def bfs(drv, cfgargs, maxstates):
    """schedd-bfs -> {'states':…, 'stuck':…, …} (ints).  Raises on a reply
    that is not key=value (e.g. `bad-args`)."""
    r = drv.ask(' '.join(['schedd-bfs'] + list(cfgargs) + [str(maxstates)]))
    out = {}
    for tok in r.split():
        m = re.fullmatch(r'(\w+)=(\d+)', tok)
        if not m:
            raise RuntimeError('schedd-bfs: unexpected reply %r' % r[:200])
        out[m.group(1)] = int(m.group(2))
    return out


def find(drv, cfgargs, maxstates, pred):
    """schedd-find -> label path (Lean list syntax) or None."""
    r = drv.ask(' '.join(['schedd-find'] + list(cfgargs) +
                         [str(maxstates), pred]))
    if r == 'none':
        return None
    if not r.startswith('['):
        raise RuntimeError('schedd-find: unexpected reply %r' % r[:200])
    return r


def seq(drv, cfgargs):
    """schedd-seq -> (ok: bool, [(base, idx), …]) of the sequential decoder."""
    r = drv.ask(' '.join(['schedd-seq'] + list(cfgargs)))
    m = re.fullmatch(r'([01]) (\S+)', r)
    if not m:
        raise RuntimeError('schedd-seq: unexpected reply %r' % r[:200])
    recs = [] if m.group(2) == '-' else [
        tuple(int(x) for x in it.split('.')) for it in m.group(2).split(',')]
    return m.group(1) == '1', recs


# ------------------------------------------------------------ real program
def build_lbzip2(tmpdir, src='/repo/src', extra_flags=(), name='lbzip2'):
    """gcc -O1 build of the hooked lbzip2 from `src` into tmpdir; None (and
    the compiler output in tmpdir/<name>.build.log) if the build fails."""
    out = os.path.join(tmpdir, name)
    srcs = sorted(os.path.join(src, f) for f in os.listdir(src)
                  if f.endswith('.c'))
    cmd = ['gcc', '-O1', '-w'] + CDEFS + list(extra_flags) + \
        ['-o', out] + srcs + ['-lpthread']
    r = subprocess.run(cmd, stdout=subprocess.PIPE, stderr=subprocess.STDOUT,
                       text=True, timeout=600)
    if r.returncode != 0:
        with open(out + '.build.log', 'w') as f:
            f.write(r.stdout)
        return None
    return out


_SHIM_C = r'''
#define _GNU_SOURCE
#include <dlfcn.h>
#include <stdio.h>
typedef FILE *(*fopen_t)(const char *, const char *);
static FILE *wrap(const char *sym, const char *p, const char *m)
{
  FILE *f = ((fopen_t)dlsym(RTLD_NEXT, sym))(p, m);
  if (f != NULL && m[0] == 'a')
    setvbuf(f, NULL, _IOLBF, 0);
  return f;
}
FILE *fopen(const char *p, const char *m) { return wrap("fopen", p, m); }
FILE *fopen64(const char *p, const char *m) { return wrap("fopen64", p, m); }
'''


def build_flush_shim(tmpdir):
    """An LD_PRELOAD library that makes files fopen()ed in append mode (the
    hook's trace file) line buffered, so that the trace of a run that abort()s
    or is killed on a hang is complete up to the last event (otherwise up to
    4 KiB, ~35 lines, of its tail sit in a stdio buffer and are lost).  The
    program under test is unchanged.  Pass the result as run_trace(preload=).
    None if it cannot be built."""
    src = os.path.join(tmpdir, 'linebuf_shim.c')
    out = os.path.join(tmpdir, 'linebuf_shim.so')
    with open(src, 'w') as f:
        f.write(_SHIM_C)
    r = subprocess.run(['gcc', '-O1', '-shared', '-fPIC', '-o', out, src,
                        '-ldl'], stdout=subprocess.PIPE,
                       stderr=subprocess.STDOUT, text=True, timeout=120)
    return out if r.returncode == 0 else None


_run_counter = [0]


def run_trace(binary, bz2_path, n, tmpdir, in_granul=None, out_granul=None,
              in_slots=None, out_slots=None, perturb=None, timeout=60,
              check=True, delay=None, extra_args=(), preload=None):
    """lbzip2 -d -n <n> < bz2_path with a fresh trace file.
    -> dict(status (None if timed out, negative = signal), out_path,
            out_bytes, trace_path, timed_out, stderr, wall_s).
    `preload`: an LD_PRELOAD library, see build_flush_shim()."""
    _run_counter[0] += 1
    tag = '%d-%d' % (os.getpid(), _run_counter[0])
    trace = os.path.join(tmpdir, 'trace-%s.txt' % tag)
    outp = os.path.join(tmpdir, 'out-%s.bin' % tag)
    env = dict(os.environ)
    for k in list(env):
        if k.startswith('LBZIP2_VERIF_'):
            del env[k]
    env['LBZIP2_VERIF_TRACE'] = trace
    if preload:
        env['LD_PRELOAD'] = preload
    if check:
        env['LBZIP2_VERIF_CHECK'] = '1'
    for k, v in (('IN_GRANUL', in_granul), ('OUT_GRANUL', out_granul),
                 ('IN_SLOTS', in_slots), ('OUT_SLOTS', out_slots),
                 ('PERTURB', perturb), ('DELAY', delay)):
        if v is not None:
            env['LBZIP2_VERIF_' + k] = str(v)
    t0 = time.time()
    timed_out = False
    with open(bz2_path, 'rb') as fi, open(outp, 'wb') as fo:
        p = subprocess.Popen([binary, '-d', '-n', str(n)] + list(extra_args),
                             stdin=fi, stdout=fo, stderr=subprocess.PIPE,
                             env=env)
        try:
            _, err = p.communicate(timeout=timeout)
            status = p.returncode
        except subprocess.TimeoutExpired:
            timed_out = True
            p.kill()
            _, err = p.communicate()
            status = None
    return {'status': status, 'out_path': outp,
            'out_bytes': os.path.getsize(outp), 'trace_path': trace,
            'timed_out': timed_out,
            'stderr': (err or b'').decode('utf-8', 'replace'),
            'wall_s': round(time.time() - t0, 3)}


def trace_lines(path):
    """Complete, well-formed trace lines of a (possibly cut) trace file."""
    if not os.path.exists(path):
        return []
    with open(path, 'r', errors='replace') as f:
        data = f.read()
    lines = data.split('\n')
    lines.pop()                 # '' after the last '\n', or an unterminated cut
    while lines and not re.match(r'^[IRUWSF] t=\d+ \S+( \w+=\d+)+$', lines[-1]):
        lines.pop()
    return lines


def trace_to_events(path):
    """The `;`-joined compact form for schedd-accept:
    K,t,name,wu,os,eof,pt,pd,in,scan,retr,emit,reord,order,unord,head,tail
    one record per trace line, same order ('' for an empty trace)."""
    evs = []
    prev = {k: '0' for k in FIELDS}
    for ln in trace_lines(path):
        tok = ln.split(' ')
        kv = dict(prev)
        for t in tok[3:]:
            k, _, v = t.partition('=')
            kv[k] = v
        evs.append(','.join([tok[0], tok[1][2:], tok[2]] +
                            [kv[k] for k in FIELDS]))
        prev = kv
    return ';'.join(evs)


def accept_base(drv, n, tin, tout, ultra, events):
    """schedd-accept only (counter/queue-size projection of Model.SchedD)
    -> (ok, reply).  An empty trace is (False, 'empty')."""
    if not events:
        return False, 'empty'
    r = drv.ask('schedd-accept %d %d %d %d %s' % (n, tin, tout,
                                                  int(bool(ultra)), events))
    return r.startswith('ok '), r


def accept_w(drv, n, tin, tout, ultra, events, hung=False, lat_min=0):
    """schedd-acceptw: replay of the I/R/U/W(/S)/F lines WITH their thread ids
    against the projected refinement Model.SchedDW (sched_mutex holder,
    next_task, one ready/inloop/running/waiting/exited state per worker thread;
    Lemmas/SchedD/ProjW.lean) -> (ok, reply).

    reply  `ok lines= steps= workers= wakeups= signals= maxlat= exits= schecks=`
        or `reject <line#> <why>`: the first line the refined model refuses
           (e.g. the `next=` of a U/W line is not a task select_task() can
           return for the counters of that line, a worker waits although
           next_task != NULL, exits before finished(), two threads inside the
           mutex, and - when the tree logs `S t=<tid> signal` lines - an
           xsignal that is missing or unexpected at a sched_unlock).
        or (True, 'unavailable') when the driver has no such command.
    hung=True : the trace is the prefix of a run that timed out; after the
        replay the final refined state is diagnosed and the reply is
        `reject <line#> hung <diagnosis>` (`lost-wakeup worker=i
        signalled-at-line=L never-ran-again`, `worker-inside-task-never-
        returned`, `mutex-held`, `no-thread-runnable`).
    lat_min>0 : additionally reject when a signalled waiter has not run again
        `lat_min` lines later.  Off by default: the OS may legitimately delay a
        woken thread for thousands of trace lines on a loaded machine
        (measured: maxlat 36 unloaded, 1425 at 16x overload)."""
    if not events:
        return False, 'empty'
    r = drv.ask('schedd-acceptw %d %d %d %d %d %d %s' % (
        n, tin, tout, int(bool(ultra)), int(lat_min), int(bool(hung)), events))
    if r.startswith('bad-op'):
        return True, 'unavailable'
    return r.startswith('ok '), r


def accept(drv, n, tin, tout, ultra, events):
    """Both replays of a complete trace -> (ok, reply): `schedd-accept` (the
    projection of Model.SchedD.step, thread ids ignored) and, if that accepts,
    `schedd-acceptw` (Model.SchedDW.stepW with thread ids, see accept_w).  The
    reply of a rejection is `reject <line#> <why>` of the first replay that
    refuses, tagged `[SchedD]` / `[SchedDW]`; reject_context() understands
    both.  An empty trace is (False, 'empty')."""
    ok, r = accept_base(drv, n, tin, tout, ultra, events)
    if not ok:
        return False, (r + ' [SchedD]') if r.startswith('reject') else r
    okw, rw = accept_w(drv, n, tin, tout, ultra, events)
    if not okw:
        return False, (rw + ' [SchedDW]') if rw.startswith('reject') else rw
    if rw == 'unavailable':
        return True, r
    return True, r + ' | W ' + rw


def reject_context(path, reply, ctx=3):
    """For a `reject <line#> <why>` reply: the trace lines around line#."""
    m = re.match(r'reject (\d+)', reply)
    if not m:
        return ''
    k = int(m.group(1))
    ls = trace_lines(path)
    out = []
    for i in range(max(1, k - ctx), min(len(ls), k + ctx) + 1):
        out.append('%s%6d: %s' % ('>>' if i == k else '  ', i, ls[i - 1]))
    return '\n'.join(out)


# ------------------------------------------------------ random model shapes
def random_shape(rng, max_T=14, max_blocks=3, max_spurious=3, ultra=None,
                 n=None, tin=None, tout=None, W=None):
    """A small random model configuration (cfg_args list) for BFS campaigns.

    A chain of 1..max_blocks real blocks on positions 0..T: header parsed at
    p (p=0 first, then the previous block's end), data base b>p, end e>b,
    nb in 1..2, all decoding fine; the parser FINISHes (ok) after the last
    block; T <= max_T leaves 0..2 units of trailing data.  The scanner reports
    every real base plus 0..max_spurious spurious candidates: inside a block,
    in trailing data or anywhere free; each either fails to decode (default
    error, or an explicit error further on) or decodes as a complete block
    whose end lies beyond the next real header (nb 1..2, fin 0/1).
    Slots: n 1..3, in 1..4, out 1..6, W 2..4."""
    while True:
        nblk = rng.randint(1, max_blocks)
        p = 0
        blocks = []
        for _ in range(nblk):
            b = p + rng.randint(1, 2)
            e = b + rng.randint(1, 3)
            blocks.append((p, b, e, rng.randint(1, 2)))
            p = e
        upto = p + rng.randint(0, 1)
        T = upto + rng.randint(0, 2)
        if T <= max_T:
            break
    parse = [('h', hp, b) for (hp, b, e, nb) in blocks]
    parse.append(('f', p, upto, 1))
    retr = [(b, 1, e, nb, 1) for (hp, b, e, nb) in blocks]
    bases = [b for (hp, b, e, nb) in blocks]
    headers = [hp for (hp, b, e, nb) in blocks] + [p]
    cands = list(bases)
    for _ in range(rng.randint(0, max_spurious)):
        free = [q for q in range(1, T + 1) if q not in cands]
        if not free:
            break
        where = rng.choice(['inside', 'trail', 'any'])
        pool = free
        if where == 'inside':
            pool = [q for q in free
                    if any(b < q < e for (hp, b, e, nb) in blocks)] or free
        elif where == 'trail':
            pool = [q for q in free if q > p] or free
        q = rng.choice(pool)
        cands.append(q)
        how = rng.choice(['err', 'err2', 'complete', 'complete'])
        if how == 'err2':
            retr.append((q, 0, min(T, q + rng.randint(0, 3)), 1, 0))
        elif how == 'complete' and q < T:
            beyond = [h for h in headers if h > q]
            lo = beyond[0] + 1 if beyond and beyond[0] + 1 <= T else q + 1
            retr.append((q, 1, rng.randint(lo, T), rng.randint(1, 2),
                         rng.randint(0, 1)))
        # 'err': no entry -> the model's default (error at base)
    if ultra is None:
        ultra = 1 if rng.random() < 0.25 else 0
    return cfg_args(n or rng.randint(1, 3), tin or rng.randint(1, 4),
                    tout or rng.randint(1, 6), W or rng.randint(2, 4), T,
                    ultra, parse, retr, sorted(cands))


# ---------------------------------------------------------------- self-test
def make_input(path, rng, raw_bytes=1500000):
    """~raw_bytes*4/3 of base64 text -> several level-1 (100k) bzip2 blocks.
    Returns the uncompressed data."""
    import base64
    import bz2
    data = base64.b64encode(bytes(rng.getrandbits(8)
                                  for _ in range(raw_bytes)))
    with open(path, 'wb') as f:
        f.write(bz2.compress(data, 1))
    return data


def _selftest():
    import shutil
    import tempfile
    tmp = tempfile.mkdtemp(prefix='schedd-selftest-')
    rng = random.Random(int(os.environ.get('VERIF_SEED', '1')))
    try:
        t0 = time.time()
        exe = build_lbzip2(tmp)
        print('build: %s (%.1fs)' % (exe, time.time() - t0))
        if exe is None:
            print(open(os.path.join(tmp, 'lbzip2.build.log')).read()[-2000:])
            return 2
        bzp = os.path.join(tmp, 'in.bz2')
        data = make_input(bzp, rng)
        print('input: %d bytes raw, %d bytes bz2' % (len(data),
                                                     os.path.getsize(bzp)))
        drv = Drv()
        print('driver:', drv.path)
        nok = nrej = nbad = 0
        variants = [
            dict(),
            dict(in_granul=4096, out_granul=65536, in_slots=64, perturb=1),
            dict(in_granul=16384, out_granul=200000, in_slots=16, perturb=2),
            dict(in_granul=32768, out_granul=30000, in_slots=6, out_slots=5,
                 perturb=3),
        ]
        for n in (1, 2, 3, 4):
            for v in variants:
                r = run_trace(exe, bzp, n, tmp, **v)
                good = (r['status'] == 0 and
                        open(r['out_path'], 'rb').read() == data)
                tin = v.get('in_slots') or 4 * n
                tout = v.get('out_slots') or 16 * n
                t1 = time.time()
                ev = trace_to_events(r['trace_path'])
                t2 = time.time()
                ok, rep = accept(drv, n, tin, tout, 0, ev)
                t3 = time.time()
                nl = len(trace_lines(r['trace_path']))
                print('n=%d %s: status=%s timed_out=%s output_ok=%s lines=%d '
                      'run=%.2fs conv=%.2fs accept=%.2fs\n    %s' %
                      (n, v, r['status'], r['timed_out'], good, nl,
                       r['wall_s'], t2 - t1, t3 - t2, rep))
                if r['stderr'].strip():
                    print('    stderr:', r['stderr'].strip()[:300])
                if ok:
                    nok += 1
                else:
                    nrej += 1
                    print(reject_context(r['trace_path'], rep))
                if not good:
                    nbad += 1
                os.unlink(r['out_path'])
        print('SUMMARY traces: ok=%d reject=%d bad-runs=%d' % (nok, nrej,
                                                               nbad))
        for i in range(5):
            ca = random_shape(rng)
            t1 = time.time()
            st = bfs(drv, ca, 200000)
            sq = seq(drv, ca)
            print('shape %d: %s\n    seq=%s\n    %.2fs %s' %
                  (i, ' '.join(ca), sq, time.time() - t1,
                   ' '.join('%s=%d' % kv for kv in st.items())))
        drv.close()
        return 0
    finally:
        shutil.rmtree(tmp, ignore_errors=True)


if __name__ == '__main__':
    sys.exit(_selftest())
