#!/usr/bin/env python3
"""C21 — I/O failures on filters terminate promptly.

Proof side: LbzVerif.Props.C21 (Model.Fail: main in sigsuspend + primary /
reader / writer threads, failfx → bailout → SIGUSR1 → main bailout).

Tie (process level): the REAL lbzip2 from /repo's working tree filtering stdin
to stdout (compress, decompress, `-cdf` copy of non-bzip2 data) with
  * an errno injected at the k-th read()/write() by harness/faultshim.c
    (EPIPE, EIO, ENOSPC, EFBIG; one-shot and "sticky"; the shim also generates
    the SIGPIPE / SIGXFSZ the kernel would generate for the failing thread),
  * real broken pipes (`| head -c N`), real RLIMIT_FSIZE, a real read error
    (stdin is a directory), with SIGPIPE / SIGXFSZ default and ignored,
each under a 20 s timeout.  Observed: exit status / signal, stderr empty or
not, wall time.  Checked (1) against the property text directly and (2) for
membership in the outcome set of the Lean model (driver command `c21`).
"""
import concurrent.futures
import os
import resource
import signal
import subprocess
import sys
import time

sys.path.insert(0, os.path.join(os.path.dirname(os.path.abspath(__file__)),
                                '..', 'tools'))
from vlib import Check, VERIF, batch, sh  # noqa: E402

THEOREMS = ['terminates', 'never_zero', 'outcome', 'diagnostic_iff']
ERRNOS = ['EPIPE', 'EIO', 'ENOSPC', 'EFBIG']
SILENT = ('EPIPE', 'EFBIG')
TIMEOUT = 20
MAX_VIOLATION_FILES = 12


def make_input(rng, size):
    words = [bytes(rng.randrange(97, 123) for _ in range(rng.randrange(2, 9)))
             for _ in range(400)]
    out = bytearray()
    while len(out) < size:
        out += rng.choice(words) + b' '
    return bytes(out[:size])


def clean_env(shim, logp, extra=None):
    env = dict(os.environ)
    for k in list(env):
        if k.startswith('FAULT_') or k in ('LBZIP2', 'BZIP2', 'BZIP'):
            del env[k]
    env['LD_PRELOAD'] = shim
    env['FAULT_LOG'] = logp
    env.update(extra or {})
    return env


def endstr(rc):
    if rc is None:
        return 'hang'
    return 'sig:%d' % -rc if rc < 0 else 'exit:%d' % rc


def read_log(logp):
    if not os.path.exists(logp):
        return []
    with open(logp) as f:
        lines = f.read().splitlines()
    os.unlink(logp)
    return lines


def run_filter(ck, exe, shim, args, infile, fault, serial, preexec=None,
               stdout=subprocess.PIPE, use_shim=True):
    logp = os.path.join(ck.tmp, 'log%06d' % serial)
    env = clean_env(shim, logp, fault)
    if not use_shim:
        # (RLIMIT_FSIZE would also hit the shim's own log file)
        del env['LD_PRELOAD'], env['FAULT_LOG']
    t0 = time.time()
    with open(infile, 'rb') as fin:
        try:
            p = subprocess.run([exe] + args, stdin=fin, stdout=stdout,
                               stderr=subprocess.PIPE, env=env,
                               timeout=TIMEOUT, start_new_session=True,
                               preexec_fn=preexec,
                               restore_signals=preexec is None)
            rc, err = p.returncode, p.stderr
        except subprocess.TimeoutExpired as e:
            rc, err = None, e.stderr or b''
    dt = time.time() - t0
    log = read_log(logp)
    inj = [l for l in log if 'inject=errno' in l]
    wfail = [l for l in log if l.startswith('write') and ' = -1 ' in l]
    rfail = [l for l in log if l.startswith('read') and ' = -1 ' in l]
    return {'end': endstr(rc), 'err': 1 if err else 0, 'dt': dt,
            'stderr': err[:300].decode('latin-1'), 'log': log, 'inj': inj,
            'wfail': wfail, 'rfail': rfail,
            'argv': [exe] + args, 'env': fault or {}}


def judge(kind, errno, sigdfl, r):
    """The property on one observation in which a `kind` (read/write) call
    failed with `errno`; sigdfl: SIGPIPE/SIGXFSZ have the default action."""
    bad = []
    e = r['end']
    if e == 'hang':
        return ['did not terminate within %d s' % TIMEOUT]
    if e == 'exit:0':
        bad.append('exit status 0 after a failed %s()' % kind)
    want = {'exit:1'}
    if kind == 'write' and sigdfl:
        if errno == 'EPIPE':
            want = {'sig:13'}
        elif errno == 'EFBIG':
            want = {'sig:25'}
    if e not in want and e != 'exit:0':
        bad.append('ended with %s, expected %s' % (e, '/'.join(sorted(want))))
    if errno in SILENT and r['err']:
        bad.append('diagnostic printed for %s' % errno)
    if errno not in SILENT and not r['err']:
        bad.append('no diagnostic for %s' % errno)
    return bad


def main():
    ck = Check('C21')
    ck.regen()
    ck.lean(['LbzVerif.Props.C21'],
            extra_targets=() if os.environ.get('LBZDRV') else ('lbzdrv',))
    ck.require_theorems(['LbzVerif.Props.C21.' + t for t in THEOREMS])
    exe = ck.build_lbzip2(asan=False)
    shim = os.path.join(ck.tmp, 'faultshim.so')
    r = sh(['gcc', '-O1', '-g', '-shared', '-fPIC', '-o', shim,
            os.path.join(VERIF, 'harness', 'faultshim.c'), '-ldl',
            '-lpthread'])
    if r.returncode != 0:
        ck.log('faultshim build failed:\n' + r.stdout[-2000:])
        ck.broken.append('harness build: faultshim')
    drv = ck.driver()
    if not os.path.exists(drv):
        ck.broken.append('driver missing: ' + drv)
    if exe is None or any(b.startswith(('harness build', 'driver missing'))
                          for b in ck.broken):
        ck.finish({'evaluations': 0, 'distinct_nontrivial': 0,
                   'rule': 'nothing ran'})

    rng = ck.rng
    nviol = [0]

    def violation(what, replay):
        nviol[0] += 1
        if nviol[0] <= MAX_VIOLATION_FILES:
            ck.violation(what, replay)
        elif nviol[0] == MAX_VIOLATION_FILES + 1:
            ck.log('further violations are counted but not written')

    size = 1_250_000 + rng.randrange(0, 30000)
    plain = make_input(rng, size)
    plainf = os.path.join(ck.tmp, 'plain')
    with open(plainf, 'wb') as f:
        f.write(plain)
    nthr = rng.choice([2, 3, 4])
    p = subprocess.run([exe, '-1', '-n', str(nthr)], input=plain,
                       stdout=subprocess.PIPE, stderr=subprocess.PIPE)
    packed = p.stdout
    packedf = os.path.join(ck.tmp, 'packed')
    with open(packedf, 'wb') as f:
        f.write(packed)
    modes = {
        'c': (['-1', '-n', str(nthr)], plainf, packed),
        'd': (['-d', '-n', str(nthr)], packedf, plain),
        'copy': (['-cdf', '-n', str(nthr)], plainf, plain),
    }
    serial = [0]

    def nxt():
        serial[0] += 1
        return serial[0]

    evaluations = 0
    counts = {}
    for m, (args, inf, want) in modes.items():
        r = run_filter(ck, exe, shim, args, inf, None, nxt())
        evaluations += 1
        nr = sum(1 for l in r['log'] if l.startswith('read '))
        nw = sum(1 for l in r['log'] if l.startswith('write '))
        counts[m] = {'read': nr, 'write': nw}
        if r['end'] != 'exit:0' or r['err']:
            violation('fault-free filter run failed: %s' % r['end'],
                      {'argv': r['argv'], 'stderr': r['stderr']})
    # output bytes of the fault-free runs
    for m, (args, inf, want) in modes.items():
        with open(inf, 'rb') as fin:
            p = subprocess.run([exe] + args, stdin=fin,
                               stdout=subprocess.PIPE, stderr=subprocess.PIPE)
        if m != 'c' and p.stdout != want:
            violation('fault-free %s output wrong' % m, {'argv': p.args})
    ck.log('input %d bytes, -n %d; calls per fault-free run: %s' %
           (size, nthr, counts))

    # ---- injected errnos --------------------------------------------------
    plan = []
    for m in modes:
        for cls in ('read', 'write'):
            n = counts[m][cls]
            idxs = list(range(n))
            if ck.quick and n > 15:
                idxs = list(range(12)) + list(range(n - 3, n))
            for idx in idxs:
                for e in ERRNOS:
                    plan.append((m, cls, idx, e, 0))
                    if cls == 'write' or not ck.quick:
                        plan.append((m, cls, idx, e, 1))
    ck.log('injection runs planned: %d' % len(plan))

    def job(n):
        m, cls, idx, e, sticky = plan[n]
        args, inf, _ = modes[m]
        fault = {'FAULT_CLASS': cls, 'FAULT_INDEX': str(idx),
                 'FAULT_ERRNO': e}
        if sticky:
            fault['FAULT_STICKY'] = '1'
        return n, run_filter(ck, exe, shim, args, inf, fault, n + 1000)

    results = [None] * len(plan)
    with concurrent.futures.ThreadPoolExecutor(max_workers=10) as ex:
        for n, r in ex.map(job, range(len(plan))):
            results[n] = r

    reqs = []
    for n, (m, cls, idx, e, sticky) in enumerate(plan):
        r = results[n]
        thr = 'W' if cls == 'write' else 'R'
        if r['inj'] and r['inj'][0].split()[2] == 'M':
            thr = 'M'
        last = counts[m][cls] - 1
        pos = 0 if idx == 0 else (2 if idx == last else 1)
        reqs.append('c21 %s %s %s %s 3 %d 1 1' %
                    (m, thr, 'r' if cls == 'read' else 'w', e, pos))
    # model sets for the ignored dispositions (asked in the same batch)
    reqs2 = ['c21 c W w EPIPE 3 1 0 1', 'c21 c W w EFBIG 3 1 1 0',
             'c21 copy M w EPIPE 2 1 0 1']
    rc, allowed, derr = batch([drv], reqs + reqs2, timeout=1200)
    rep2 = allowed[len(reqs):]
    allowed = allowed[:len(reqs)]
    if rep2 != ['hang=0 | end=exit:1 err=0'] * 3:
        ck.broken.append('model: ignored SIGPIPE/SIGXFSZ should give exit 1, '
                         'silent; driver says %s' % rep2)
    if len(allowed) != len(reqs):
        ck.broken.append('driver: %d replies for %d requests' %
                         (len(allowed), len(reqs)))
        allowed += ['?'] * len(reqs)

    distinct = set()
    hist = {}
    samples = []
    maxdt = 0.0
    nohit = 0
    mism = 0
    main_thread_hits = 0
    for n, (m, cls, idx, e, sticky) in enumerate(plan):
        r = results[n]
        evaluations += 1
        maxdt = max(maxdt, r['dt'])
        replay = {'mode': m, 'argv': r['argv'], 'env': r['env'],
                  'stdin': 'words text %d bytes (seeded) / its -1 compressed '
                           'form' % size,
                  'observed': '%s err=%d %.2fs' % (r['end'], r['err'],
                                                   r['dt']),
                  'stderr': r['stderr'], 'model_allows': allowed[n],
                  'how': 'LD_PRELOAD=harness/faultshim.so, stdin from a '
                         'file, stdout to a pipe'}
        if not r['inj']:
            nohit += 1
            if r['end'] != 'exit:0':
                violation('run without a reached fault ended with ' +
                          r['end'], replay)
            continue
        if r['inj'][0].split()[2] == 'M':
            main_thread_hits += 1
        bad = judge(cls, e, True, r)
        for b in bad:
            violation('%s %s[%d] %s%s: %s' % (m, cls, idx, e,
                                              ' sticky' if sticky else '',
                                              b), replay)
        parts = allowed[n].split(' | ')
        obs = 'end=%s err=%d' % (r['end'], r['err'])
        if parts[0] != 'hang=0':
            ck.broken.append('model: reachable stuck state for ' + reqs[n])
        if obs not in parts[1:] and not bad:
            mism += 1
            ck.broken.append('correspondence: %s: real "%s" not in model set '
                             '{%s}' % (reqs[n], obs, allowed[n]))
        distinct.add((m, cls, idx, e, sticky, obs))
        hk = '%s %s %s -> %s' % (m, cls, e, obs)
        hist[hk] = hist.get(hk, 0) + 1
        if len(samples) < 8 and n % max(1, len(plan) // 8) == 0:
            samples.append({'mode': m, 'inject': [cls, idx, e, sticky],
                            'observed': obs, 'seconds': round(r['dt'], 3),
                            'model': allowed[n]})

    # ---- the same faults with signals BLOCKED in the mask inherited from
    # the parent (serial: preexec_fn).  The failure path reports through
    # SIGUSR1/SIGUSR2 and bailout(); what the parent happened to block must
    # not turn a failure into a hang or change its outcome.
    masks = [[signal.SIGUSR1], [signal.SIGUSR2],
             [signal.SIGUSR1, signal.SIGUSR2, signal.SIGINT, signal.SIGTERM]]
    reached = [n for n in range(len(plan)) if results[n]['inj']]
    pick = ck.rng.sample(reached, min(len(reached), 18 if ck.quick else 150))
    inherited = 0
    for k, n in enumerate(sorted(pick)):
        m, cls, idx, e, sticky = plan[n]
        args, inf, _ = modes[m]
        fault = {'FAULT_CLASS': cls, 'FAULT_INDEX': str(idx), 'FAULT_ERRNO': e}
        if sticky:
            fault['FAULT_STICKY'] = '1'
        mask = masks[k % len(masks)]

        def pre(mask=mask):
            signal.signal(signal.SIGPIPE, signal.SIG_DFL)
            signal.signal(signal.SIGXFSZ, signal.SIG_DFL)
            signal.pthread_sigmask(signal.SIG_BLOCK, mask)
        r = run_filter(ck, exe, shim, args, inf, fault, 500000 + n, preexec=pre)
        evaluations += 1
        inherited += 1
        obs = 'end=%s err=%d' % (r['end'], r['err'])
        replay = {'mode': m, 'argv': r['argv'], 'env': r['env'],
                  'inherited_blocked_signals': [int(x) for x in mask],
                  'observed': '%s %.2fs' % (obs, r['dt']),
                  'stderr': r['stderr'], 'model_allows': allowed[n],
                  'how': 'as the injected-errno runs, but the parent blocks '
                         'the listed signals before exec'}
        bad = judge(cls, e, True, r) if r['inj'] else \
            ([] if r['end'] == 'exit:0' else ['ended with ' + r['end']])
        if not bad and r['inj'] and obs not in allowed[n].split(' | ')[1:]:
            bad = ['outcome "%s" with an inherited mask is not one the '
                   'failure-path model allows {%s}' % (obs, allowed[n])]
        for b in bad:
            violation('%s %s[%d] %s with signals %s blocked by the parent: %s'
                      % (m, cls, idx, e, [int(x) for x in mask], b), replay)
        distinct.add((m, cls, idx, e, sticky, 'inherit', tuple(mask), obs))
    ck.log('runs with an inherited blocked-signal mask: %d' % inherited)

    # ---- real failures (serial: they use preexec_fn) -----------------------
    real_cases = 0

    def disp(pipe_dfl, xfsz_dfl):
        def f():
            signal.signal(signal.SIGPIPE,
                          signal.SIG_DFL if pipe_dfl else signal.SIG_IGN)
            signal.signal(signal.SIGXFSZ,
                          signal.SIG_DFL if xfsz_dfl else signal.SIG_IGN)
        return f

    def limit(nbytes, pipe_dfl, xfsz_dfl):
        d = disp(pipe_dfl, xfsz_dfl)

        def f():
            d()
            resource.setrlimit(resource.RLIMIT_FSIZE, (nbytes, nbytes))
        return f

    for m, (args, inf, want) in modes.items():
        total = len(packed) if m == 'c' else len(plain)
        cuts = [0, 1, 4, 5, 100, 4096, 65536, 65537, total // 2,
                total - 70000, total - 1]
        if not ck.quick:
            cuts += [rng.randrange(1, total) for _ in range(25)]
        cuts = sorted(set(c for c in cuts if 0 <= c < total))
        # (a) real broken pipe: lbzip2 | head -c N
        for dfl in (True, False):
            for cut in cuts:
                logp = os.path.join(ck.tmp, 'plog%d' % nxt())
                env = clean_env(shim, logp)
                t0 = time.time()
                with open(inf, 'rb') as fin:
                    p1 = subprocess.Popen([exe] + args, stdin=fin,
                                          stdout=subprocess.PIPE,
                                          stderr=subprocess.PIPE, env=env,
                                          preexec_fn=disp(dfl, True),
                                          restore_signals=False,
                                          start_new_session=True)
                    p2 = subprocess.Popen(['head', '-c', str(cut)],
                                          stdin=p1.stdout,
                                          stdout=subprocess.DEVNULL)
                    p1.stdout.close()
                    try:
                        _, err = p1.communicate(timeout=TIMEOUT)
                        rc = p1.returncode
                    except subprocess.TimeoutExpired:
                        p1.kill()
                        _, err = p1.communicate()
                        rc = None
                    p2.wait()
                dt = time.time() - t0
                maxdt = max(maxdt, dt)
                log = read_log(logp)
                wfail = [l for l in log if l.startswith('write') and
                         ' = -1 ' in l]
                evaluations += 1
                real_cases += 1
                r = {'end': endstr(rc), 'err': 1 if err else 0, 'dt': dt}
                replay = {'argv': [exe] + args, 'pipeline': '| head -c %d'
                          % cut, 'sigpipe_default': dfl, 'mode': m,
                          'observed': '%s err=%d' % (r['end'], r['err']),
                          'stderr': err[:300].decode('latin-1'),
                          'failed_writes': wfail[:3]}
                if not wfail:
                    if r['end'] != 'exit:0':
                        violation('no write failed but ended with ' +
                                  r['end'], replay)
                    continue
                if any('EPIPE' not in l for l in wfail):
                    ck.notes.append('unexpected errno on broken pipe: %s' %
                                    wfail[:2])
                for b in judge('write', 'EPIPE', dfl, r):
                    violation('real broken pipe (%s, head -c %d, SIGPIPE %s):'
                              ' %s' % (m, cut, 'default' if dfl else
                                       'ignored', b), replay)
                hk = '%s real-EPIPE %s -> %s err=%d' % (
                    m, 'dfl' if dfl else 'ign', r['end'], r['err'])
                hist[hk] = hist.get(hk, 0) + 1
                distinct.add((m, 'pipe', cut, dfl, r['end']))
        # (b) RLIMIT_FSIZE with output to a regular file
        for dfl in (True, False):
            for cut in cuts:
                outp = os.path.join(ck.tmp, 'fsize.out')
                with open(outp, 'wb') as fout:
                    r = run_filter(ck, exe, shim, args, inf, None, nxt(),
                                   preexec=limit(cut, True, dfl),
                                   stdout=fout, use_shim=False)
                got = os.path.getsize(outp)
                os.unlink(outp)
                maxdt = max(maxdt, r['dt'])
                evaluations += 1
                real_cases += 1
                replay = {'argv': r['argv'], 'rlimit_fsize': cut, 'mode': m,
                          'sigxfsz_default': dfl,
                          'observed': '%s err=%d' % (r['end'], r['err']),
                          'stderr': r['stderr'],
                          'failed_writes': r['wfail'][:3]}
                if got > cut:
                    ck.notes.append('RLIMIT_FSIZE not effective?')
                # cut < total output, so some write() must have failed
                for b in judge('write', 'EFBIG', dfl, r):
                    violation('real RLIMIT_FSIZE (%s, %d bytes, SIGXFSZ %s): '
                              '%s' % (m, cut, 'default' if dfl else 'ignored',
                                      b), replay)
                hk = '%s real-EFBIG %s -> %s err=%d' % (
                    m, 'dfl' if dfl else 'ign', r['end'], r['err'])
                hist[hk] = hist.get(hk, 0) + 1
                distinct.add((m, 'fsize', cut, dfl, r['end']))
        # (c) a real read error: stdin is a directory (EISDIR)
        logp = os.path.join(ck.tmp, 'dlog%d' % nxt())
        dfd = os.open(ck.tmp, os.O_RDONLY)
        try:
            p = subprocess.run([exe] + args, stdin=dfd,
                               stdout=subprocess.PIPE, stderr=subprocess.PIPE,
                               env=clean_env(shim, logp), timeout=TIMEOUT)
            r = {'end': endstr(p.returncode), 'err': 1 if p.stderr else 0}
        except subprocess.TimeoutExpired:
            r = {'end': 'hang', 'err': 0}
        os.close(dfd)
        read_log(logp)
        evaluations += 1
        real_cases += 1
        for b in judge('read', 'EISDIR', True, r):
            violation('real read error (%s, stdin is a directory): %s' %
                      (m, b), {'argv': [exe] + args, 'stdin': 'a directory',
                               'observed': str(r)})
        distinct.add((m, 'eisdir', r['end']))

    if len(ck.broken) > 12:
        ck.broken[12:] = ['... %d more' % (len(ck.broken) - 12)]
    ck.log('injected runs %d (fault reached in %d, on the main thread in %d),'
           ' real-failure cases %d, model/real mismatches %d, violations %d,'
           ' slowest run %.2f s' %
           (len(plan), len(plan) - nohit, main_thread_hits, real_cases, mism,
            nviol[0], maxdt))
    ck.log('outcomes: ' + ', '.join('%s: %d' % kv
                                    for kv in sorted(hist.items())))
    ck.assumptions += [
        'errnos are injected in user space (faultshim.c, cross-checked '
        'against strace -e inject); SIGPIPE/SIGXFSZ generation for '
        'EPIPE/EFBIG is emulated with pthread_kill; the real-pipe and '
        'RLIMIT_FSIZE cases use the kernel',
        'promptness is observed (20 s timeout per run, slowest run '
        'reported); the theorem `terminates` gives finiteness of the model',
        'Model.Fail abstracts the scheduler: SIGUSR2 is raised only when '
        'reader and writer completed all their calls (C11 models)',
    ]
    ck.finish({
        'evaluations': evaluations,
        'distinct_nontrivial': len(distinct),
        'rule': 'distinct (mode, call class, index, errno, sticky, outcome) '
                'with the fault actually reached, plus distinct real '
                'broken-pipe / RLIMIT_FSIZE / EISDIR cases in which a call '
                'really failed',
        'calls_per_run': counts,
        'slowest_run_s': round(maxdt, 2),
        'outcomes': dict(sorted(hist.items())),
        'samples': samples,
        'not_reached': nohit,
        'exhaustive': False,
    })


if __name__ == '__main__':
    main()
