#!/usr/bin/env python3
"""W12 in-process correspondence library: delta-code reader, decode(), emit().

Compares, on the same inputs,
  C      harness/h_emit.c   (the REAL retrieve()/decode()/emit() of /repo)
  Model  lbzdrv  delta / decodeblk / emit / emitseq   (Model.Delta/Ibwt/Emit)
  Spec   lbzdrv  deltaref / ibwtref / unrle           (Lean reference)
  Oracle the independent Python references below (bit-by-bit delta decoding,
         naive BWT, bzip2 randomisation mask, un-RLE1, CRC).

A disagreement between C and the oracle is a property violation (concrete
input as replay); C == oracle but Model != C is a broken correspondence.

Use:  run(ck) from a property check (checks/inproc.py), or standalone
      `python3 checks/w12_emit.py [--tier quick|thorough]` (prints the summary,
      writes NO property evidence)."""
import concurrent.futures
import hashlib
import os
import subprocess
import sys

HERE = os.path.dirname(os.path.abspath(__file__))
sys.path.insert(0, os.path.join(HERE, '..', 'tools'))
import vlib  # noqa: E402

NPROC = min(16, os.cpu_count() or 4)


# ------------------------------------------------------------------ oracles
def ref_delta(n, bits):
    """bzip2's reading of one table: range test before every bit."""
    if len(bits) < 5:
        return None
    c = int(bits[:5], 2)
    pos = 5
    lens = []
    for _ in range(n):
        while True:
            if c < 1 or c > 20:
                return None
            if pos >= len(bits):
                return None
            b = bits[pos]
            pos += 1
            if b == '0':
                break
            if pos >= len(bits):
                return None
            b = bits[pos]
            pos += 1
            c = c + 1 if b == '0' else c - 1
        lens.append(c)
    if n == 0 and (c < 1 or c > 20):
        return None
    return lens, pos


def ref_unrle(seq):
    """(output bytes, missing-count flag)."""
    out = bytearray()
    prev = None
    k = 0
    i = 0
    while i < len(seq):
        b = seq[i]
        i += 1
        if k == 4:
            out += bytes([prev]) * b
            k = 0
            prev = None
            continue
        if prev is not None and b == prev:
            k += 1
        else:
            prev = b
            k = 1
        out.append(b)
    return bytes(out), k == 4


CRCT = vlib.crc_table()


def ref_crc(data):
    s = 0xFFFFFFFF
    for b in data:
        s = ((s << 8) & 0xFFFFFFFF) ^ CRCT[(s >> 24) ^ b]
    return s ^ 0xFFFFFFFF


def ref_bwt(t):
    n = len(t)
    tt = t + t
    rot = sorted(range(n), key=lambda i: tt[i:i + n])
    return bytes(tt[i + n - 1] for i in rot), rot.index(0)


def rand_table_from_gen():
    import re
    p = os.path.join(vlib.LEAN, 'LbzVerif', 'Gen', 'DecodeTab.lean')
    s = open(p).read()
    m = re.search(r'def randTable : List Nat := \[(.*?)\]', s, re.S)
    return [int(x) for x in m.group(1).replace('\n', ' ').split(',')]


# bzip2's own table (first entries fixed by the format) is taken from Gen; the
# mask itself is computed the way the reference decoder does it.
def ref_rand_mask(n, rnums):
    mask = bytearray(n)
    togo = 0
    tpos = 0
    for i in range(n):
        if togo == 0:
            togo = rnums[tpos]
            tpos = (tpos + 1) % 512
        togo -= 1
        if togo == 1:
            mask[i] = 1
    return mask


# ------------------------------------------------------------------ plumbing
def par_batch(argv, lines, chunk=400):
    """Run the line protocol over `lines` in parallel chunks; returns the
    replies in order (a crashed chunk yields 'CRASH:<rc>:<stderr tail>')."""
    chunks = [lines[i:i + chunk] for i in range(0, len(lines), chunk)]

    def one(ls):
        try:
            rc, out, err = vlib.batch(argv, ls, timeout=1800)
        except subprocess.TimeoutExpired:
            return ['CRASH:timeout'] * len(ls)
        if len(out) != len(ls) or rc != 0:
            tail = (err or '')[-300:].replace('\n', ' | ')
            out = list(out[:len(ls)])
            out += ['CRASH:%s:%s' % (rc, tail)] * (len(ls) - len(out))
        return out
    res = []
    with concurrent.futures.ThreadPoolExecutor(NPROC) as ex:
        for r in ex.map(one, chunks):
            res += r
    return res


def hx(b):
    return bytes(b).hex() if len(b) else '-'


# -------------------------------------------------------------- delta cases
def delta_cases(ck):
    rng = ck.rng
    cases = []          # (tag, n, bits, shift)

    def add(tag, n, bits, shift=None, pad=None):
        if shift is None:
            shift = rng.randrange(32)
        bits = bits + '0' * (pad if pad is not None else n + 8)
        cases.append((tag, n, bits, shift))

    def five(v):
        return format(v, '05b')

    # (1) every 6-bit window x every 5-bit start value, as the first window of
    # symbol 0, and again as the SECOND window of a symbol (after a window
    # without terminator), at several alignments
    shifts_all = list(range(32))
    for start in range(32):
        for k in range(64):
            w = format(k, '06b')
            sh = shifts_all if not ck.quick else rng.sample(shifts_all, 2)
            for s in sh:
                add('window', 3, five(start) + w, s)
    for c in range(1, 21):
        for pre in ('101011', '111010', '101110', '101111', '111011', '111110'):
            for k in range(64):
                if ck.quick and rng.random() < 0.5:
                    continue
                add('window2', 3, five(c) + pre + format(k, '06b'))
    # windows that fall at the end of the real bits (zero padding of PEEK)
    for start in (1, 10, 20):
        for k in range(64):
            add('window-tail', 3, five(start) + format(k, '06b'), pad=3)

    # (2) random in-range zig-zag paths
    def zigzag(n, maxsteps):
        c = rng.randint(1, 20)
        bits = five(c)
        for _ in range(n):
            for _ in range(rng.randint(0, maxsteps)):
                up = rng.random() < 0.5
                if c == 20:
                    up = False
                elif c == 1:
                    up = True
                bits += '10' if up else '11'
                c += 1 if up else -1
            bits += '0'
        return bits
    nz = 300 if ck.quick else 4000
    for _ in range(nz):
        n = rng.choice([3, 4, 5, 8, 17, 50, 258, rng.randint(3, 258)])
        if ck.quick and n > 60 and rng.random() < 0.7:
            n = rng.randint(3, 40)
        add('zigzag', n, zigzag(n, rng.choice([1, 2, 3, 7, 25])))
    # extremes: walk 1 -> 20 -> 1 inside one symbol
    add('zigzag', 3, five(1) + '10' * 19 + '11' * 19 + '0')
    add('zigzag', 3, five(20) + '11' * 19 + '10' * 19 + '0')

    # (3) excursion shapes, shifted across window boundaries by `lead` steps
    for lead in range(0, 7):
        for sym in (0, 1, 2):
            head = '0' * sym
            # 20 -> 21 -> 20
            up = '11' * 0
            lead_dn = ('11' * lead)            # from 20 down, then back up
            add('exc-20-21-20', 4, five(20) + head + lead_dn + '10' * lead + '10' + '11' + '0')
            add('exc-1-0-1', 4, five(1) + head + '10' * lead + '11' * lead + '11' + '10' + '0')
            add('exc-end-21', 4, five(20) + head + lead_dn + '10' * lead + '10' + '0')
            add('exc-end-0', 4, five(1) + head + '10' * lead + '11' * lead + '11' + '0')
            add('ok-touch-20', 4, five(19) + head + lead_dn + '10' * lead + '10' + '11' + '0')
            add('ok-touch-1', 4, five(2) + head + '10' * lead + '11' * lead + '11' + '10' + '0')
    add('exc-start-0', 3, five(0) + '10' + '0')
    add('exc-start-0', 3, five(0) + '0')
    add('exc-start-0', 3, five(0) + '101010' + '0')
    for v in range(21, 32):
        add('exc-start-hi', 3, five(v) + '11' * (v - 20) + '0')
        add('exc-start-hi', 3, five(v) + '0')
        add('exc-start-hi', 3, five(v) + '11' + '0')

    # (4) random bit strings
    nr = 400 if ck.quick else 6000
    for _ in range(nr):
        n = rng.choice([3, 4, 6, 10])
        ln = rng.randint(5, 60)
        add('random', n, five(rng.randint(1, 20)) +
            ''.join(rng.choice('01') for _ in range(ln)))
    return cases


def run_delta(ck, h, drv, summ):
    cases = delta_cases(ck)
    creq = ['%s %d %s %d' % ('deltaw' if i % 3 == 0 else 'delta', n, b, s)
            for i, (t, n, b, s) in enumerate(cases)]
    mreq = ['delta %d %s' % (n, b) for (t, n, b, s) in cases]
    sreq = ['deltaref %d %s' % (n, b) for (t, n, b, s) in cases]
    cres = par_batch([h], creq)
    mres = par_batch([drv], mreq)
    sres = par_batch([drv], sreq)
    seen = set()
    tags = {}
    acc = rej = 0
    for (tag, n, bits, shift), cr, mr, sr, rq in zip(cases, cres, mres, sres, creq):
        summ['evaluations'] += 1
        r = ref_delta(n, bits)
        want = 'err' if r is None else 'ok %s %d' % (','.join(map(str, r[0])), r[1])
        key = hashlib.sha1(('%d %s' % (n, bits)).encode()).hexdigest()
        if key not in seen:
            seen.add(key)
            if tag != 'random' or r is not None:
                summ['distinct_nontrivial'] += 1
        tags.setdefault(tag, [0, 0])[0 if r is not None else 1] += 1
        if r is None:
            rej += 1
        else:
            acc += 1
        replay = {'harness_cmd': rq, 'alpha_size': n, 'table_bits': bits,
                  'shift': shift, 'c': cr, 'model': mr, 'lean_spec': sr,
                  'oracle': want, 'case': tag}
        if sr != want:
            ck.broken.append('oracle: Lean Spec.Delta (%s) != Python '
                             'reference (%s) on %s' % (sr, want, rq))
        if cr != want:
            if cr.startswith('ok') and r is None:
                ck.violation('retrieve() accepted a delta-coded table in which '
                             'a code length leaves 1..20 (case %s)' % tag,
                             replay)
            elif cr == 'err' and r is not None:
                ck.violation('retrieve() rejected (ERR_DELTA) a conforming '
                             'delta-coded table (case %s)' % tag, replay)
            elif cr.startswith('ok') and r is not None:
                ck.violation('retrieve() decoded different code lengths / bit '
                             'count than the format prescribes (case %s)' % tag,
                             replay)
            else:
                ck.broken.append('correspondence: h_emit delta answered %r '
                                 'on %s (expected %s)' % (cr[:200], rq, want))
        if mr != cr:
            ck.broken.append('correspondence: Model.Delta (%s) != C (%s) on %s'
                             % (mr, cr[:200], rq))
        if len(summ['samples']) < 4 and tag.startswith('exc') and \
                summ['evaluations'] % 7 == 0:
            summ['samples'].append({'delta': rq, 'c': cr, 'oracle': want})
    summ['delta'] = {'cases': len(cases), 'accepted': acc, 'rejected': rej,
                     'by_tag_acc_rej': tags}


# --------------------------------------------------------------- emit cases
def emit_node_seqs(ck):
    rng = ck.rng
    seqs = []

    def run(b, ln):
        """encode a run of ln copies of b as RLE1 would (ln <= 259)"""
        if ln < 4:
            return bytes([b]) * ln
        return bytes([b]) * 4 + bytes([ln - 4])

    # runs of 1..5, 255+4, count bytes 0, 1, 254, 255, adjacent runs of the
    # same byte, count byte equal to the run byte
    for ln in (1, 2, 3, 4, 5, 6, 7, 8, 258, 259):
        seqs.append(('run%d' % ln, run(0x61, ln)))
        seqs.append(('run%d+x' % ln, run(0x61, ln) + b'b'))
        seqs.append(('x+run%d' % ln, b'b' + run(0x61, ln)))
        seqs.append(('run%d+run' % ln, run(0x61, ln) + run(0x61, 5) + run(0x62, 4)))
    seqs.append(('cnt=byte', bytes([4, 4, 4, 4, 4, 4, 4, 4, 4, 4])))
    seqs.append(('cnt=0-same', b'aaaa\x00aaaa\x00a'))
    seqs.append(('cnt255', b'aaaa\xff' * 3))
    seqs.append(('cnt255-256+4', b'aaaa\xffaaaa\x01'))     # 259 + 5 = "256+4…"
    seqs.append(('zero-bytes', bytes([0, 0, 0, 0, 3, 0, 0])))
    # blocks ending in 3 / 4 equal bytes
    for pre in (b'', b'x', b'xy', b'aaaa\x02', b'bbbb\x00'):
        seqs.append(('end3', pre + b'ccc'))
        seqs.append(('end4-missing', pre + b'cccc'))
        seqs.append(('end4+cnt', pre + b'cccc\x00'))
        seqs.append(('end4+cnt5', pre + b'cccc\x05'))
    seqs.append(('single', b'z'))
    seqs.append(('alt', b'abababababab'))
    # random mixtures
    nr = 60 if ck.quick else 1500
    for _ in range(nr):
        s = bytearray()
        alpha = rng.choice([1, 2, 3, 256])
        for _ in range(rng.randint(1, 12)):
            b = rng.randrange(alpha) if alpha < 256 else rng.randrange(256)
            kind = rng.random()
            if kind < 0.4:
                s += bytes([b]) * rng.randint(1, 3)
            elif kind < 0.8:
                s += bytes([b]) * 4 + bytes([rng.choice([0, 1, 2, 3, 7, 40, 255, rng.randrange(256)])])
            else:
                s += bytes(rng.randrange(alpha if alpha < 256 else 256) for _ in range(rng.randint(1, 9)))
        if rng.random() < 0.15:
            s += bytes([s[-1]]) * 4
        seqs.append(('random', bytes(s)))
    return seqs


def size_lists(ck, total, exhaustive_k):
    rng = ck.rng
    ls = [[total + 5], [total] if total else [1], [1] * (total + 2)]
    for s in range(2, exhaustive_k + 1):
        ls.append([s] * (total // s + 2))
    for _ in range(3 if ck.quick else 10):
        l = []
        acc = 0
        while acc <= total + 1:
            s = rng.choice([1, 1, 2, 3, 4, 5, 7, 254, 255, 256, rng.randint(1, 40)])
            l.append(s)
            acc += s
        ls.append(l)
    return ls


def parse_run(reply):
    """-> (list of (status, bytes, left, state), crc or None) or None"""
    try:
        body, crc = reply.rsplit(' ', 1)
        items = []
        if body != '-':
            for it in body.split(';'):
                f = it.split(':')
                st = f[0]
                data = b'' if f[1] == '-' else bytes.fromhex(f[1])
                left = int(f[2])
                state = int(f[3][1:]) if len(f) > 3 else None
                items.append((st, data, left, state))
        return items, (None if crc == '-' else int(crc, 16))
    except Exception:
        return None


def judge_emit(ck, summ, req, cr, mr, nodes, sizes, states):
    """nodes = the byte sequence emit() must traverse (oracle), or None when
    only C == Model can be judged."""
    summ['evaluations'] += 1
    if mr != cr:
        bad = True
    else:
        bad = False
    pc = parse_run(cr)
    if pc is None:
        ck.broken.append('correspondence: h_emit answered %r on %s'
                         % (cr[:200], req[:200]))
        return
    items, crc = pc
    for it in items:
        if it[0] == 'MORE' and it[3] is not None:
            states[it[3]] = states.get(it[3], 0) + 1
    if nodes is not None:
        want, missing = ref_unrle(nodes)
        got = b''.join(i[1] for i in items)
        last = items[-1][0] if items else 'MORE'
        replay = {'harness_cmd': req, 'c': cr[:2000], 'model': mr[:2000],
                  'nodes_hex': hx(nodes), 'sizes': sizes,
                  'expected_hex': hx(want), 'missing_count': missing}
        ok = True
        if last == 'MORE':
            ok = want.startswith(got) and all(
                len(i[1]) == s for i, s in zip(items, sizes))
        elif last == 'OK':
            ok = (not missing) and got == want and crc == ref_crc(want) and \
                items[-1][2] == sizes[len(items) - 1] - len(items[-1][1])
        elif last == 'ERR_RUNLEN':
            ok = missing and got == want
        else:
            ok = False
        if not ok:
            ck.violation('emit() output/status differs from un-RLE1 of the '
                         'block for some output buffer split', replay)
            return
    if bad:
        ck.broken.append('correspondence: Model.Emit (%s) != C (%s) on %s'
                         % (mr[:300], cr[:300], req[:300]))


def run_emit(ck, h, drv, summ):
    rng = ck.rng
    states = {}
    seqs = emit_node_seqs(ck)
    # Lean Spec.UnRle1 against the Python oracle
    sres = par_batch([drv], ['unrle %s' % hx(s) for _, s in seqs])
    for (tag, s), r in zip(seqs, sres):
        want, missing = ref_unrle(s)
        w = 'err' if missing else 'ok:' + hx(want)
        if r != w:
            ck.broken.append('oracle: Lean Spec.UnRle1 (%s) != Python '
                             'reference (%s) on %s' % (r[:200], w[:200], hx(s)))
    reqs = []
    meta = []
    seen = set()
    for tag, s in seqs:
        want, _ = ref_unrle(s)
        k = 6 if ck.quick else 12
        if len(want) > 300:
            k = 3
        for sizes in size_lists(ck, len(want), min(k, max(2, len(want)))):
            reqs.append('emitseq %s %s' % (hx(s), ','.join(map(str, sizes))))
            meta.append((s, sizes))
    # through decode(): valid BWTs of node sequences, rand and non-rand
    rnums = rand_table_from_gen()
    blk = []
    texts = [s for _, s in seqs if len(s) >= 1][: (25 if ck.quick else 200)]
    for n in ([616, 617, 618, 619, 1337, 1338] if ck.quick else
              [616, 617, 618, 619, 620, 1336, 1337, 1338, 1339, 2100, 3000]):
        t = bytearray(rng.choice([0, 1, 7, 255]) if rng.random() < 0.7
                      else rng.randrange(256) for _ in range(n))
        # make sure the flipped positions matter: put runs around 617
        for p in (612, 613, 614, 615, 616, 617):
            if p < n:
                t[p] = 9
        texts.append(bytes(t))
    for t in texts:
        n = len(t)
        for rnd in (0, 1):
            mask = ref_rand_mask(n, rnums)
            # the block holds BWT(src), src = t ^ mask for randomised blocks;
            # primary index `idx` selects the rotation starting at rows[idx]
            src = bytes(a ^ b for a, b in zip(t, mask)) if rnd else t
            ss = src + src
            rows = sorted(range(n), key=lambda i: ss[i:i + n])
            L = bytes(ss[i + n - 1] for i in rows)
            want_idx = set([rows.index(0), 0, n - 1])
            if n <= 100:
                want_idx.add(n // 2)
            for idx in sorted(want_idx):
                dec = ss[rows[idx]:rows[idx] + n]
                exp = bytes(a ^ b for a, b in zip(dec, mask)) if rnd else dec
                blk.append((rnd, idx, L, exp))
    # boundary indices 0 and n-1 are reached through the rotations; count them
    bidx = {'idx0': sum(1 for b in blk if b[1] == 0),
            'idxlast': sum(1 for b in blk if b[1] == len(b[2]) - 1)}
    breqs = ['decodeblk %d %d %s' % (rnd, idx, hx(L)) for rnd, idx, L, t in blk]
    bc = par_batch([h], breqs, chunk=20)
    bm = par_batch([drv], breqs, chunk=20)
    bs = par_batch([drv], ['ibwtref %d %d %s' % (rnd, idx, hx(L))
                           for rnd, idx, L, t in blk
                           if len(L) <= (400 if ck.quick else 1400)], chunk=10)
    j = 0
    for (rnd, idx, L, t), c, m, rq in zip(blk, bc, bm, breqs):
        summ['evaluations'] += 1
        key = hashlib.sha1(rq.encode()).hexdigest()
        if key not in seen:
            seen.add(key)
            summ['distinct_nontrivial'] += 1
        if c != hx(t):
            ck.violation('decode() does not reproduce the block (inverse BWT%s)'
                         % (' + derandomisation' if rnd else ''),
                         {'harness_cmd': rq[:5000], 'c': c[:2000],
                          'expected_hex': hx(t)[:2000], 'rand': rnd,
                          'bwt_idx': idx})
        if m != c:
            ck.broken.append('correspondence: Model.Ibwt != C on %s' % rq[:200])
        if len(L) <= (400 if ck.quick else 1400):
            if bs[j] != hx(t):
                ck.broken.append('oracle: Lean Spec.Ibwt != Python reference '
                                 'on %s' % rq[:200])
            j += 1
    # arbitrary (not necessarily valid) last columns: C == Model only
    areqs = []
    for _ in range(40 if ck.quick else 600):
        n = rng.randint(1, 40)
        L = bytes(rng.randrange(rng.choice([1, 2, 3, 256])) for _ in range(n))
        for idx in sorted(set([0, n - 1, rng.randrange(n)])):
            for rnd in (0, 1):
                areqs.append('emit %d %d %s %s' % (
                    rnd, idx, hx(L), ','.join(map(str, rng.choice(
                        [[1] * 400, [2] * 200, [3] * 150, [1000], [7, 1, 5, 2] * 60])))))
    for rnd, idx, L, t in blk:
        want, _ = ref_unrle(t)
        for sizes in size_lists(ck, len(want), 2)[:4]:
            reqs.append('emit %d %d %s %s' % (rnd, idx, hx(L), ','.join(map(str, sizes))))
            meta.append((t, sizes))
    cres = par_batch([h], reqs, chunk=100)
    mres = par_batch([drv], reqs, chunk=100)
    for rq, (nodes, sizes), c, m in zip(reqs, meta, cres, mres):
        key = hashlib.sha1(rq.encode()).hexdigest()
        if key not in seen:
            seen.add(key)
            summ['distinct_nontrivial'] += 1
        judge_emit(ck, summ, rq, c, m, nodes, sizes, states)
    ac = par_batch([h], areqs)
    am = par_batch([drv], areqs)
    for rq, c, m in zip(areqs, ac, am):
        judge_emit(ck, summ, rq, c, m, None, None, states)
    for s in range(1, 6):
        if not states.get(s):
            ck.broken.append('campaign: rle_state %d was never suspended at' % s)
    summ['emit'] = {'node_sequences': len(seqs), 'emit_runs': len(reqs),
                    'decode_blocks': len(blk), 'arbitrary_L_runs': len(areqs),
                    'suspended_at_state': {str(k): v for k, v in sorted(states.items())},
                    'bwt_idx_boundaries': bidx,
                    'missing_count_blocks': sum(1 for _, s in seqs if ref_unrle(s)[1])}
    for rq, c in list(zip(reqs, cres))[:2000:400]:
        summ['samples'].append({'emit': rq[:160], 'c': c[:160]})


class _Capped:
    """At most CAP replay files per kind of violation (a broken table makes
    thousands of cases fail in the same way); the rest is counted."""
    CAP = 4

    def __init__(self, ck):
        self.ck = ck
        self.count = {}

    def violation(self, what, replay):
        k = what.rsplit(' (case', 1)[0]
        self.count[k] = self.count.get(k, 0) + 1
        if self.count[k] <= self.CAP:
            self.ck.violation(what, replay)

    def __getattr__(self, a):
        return getattr(self.ck, a)


def run(ck):
    real = ck
    ck = _Capped(real)
    summ = {'evaluations': 0, 'distinct_nontrivial': 0, 'samples': [],
            'rule': 'delta: distinct (alpha_size, bit string); non-trivial = '
                    'every crafted case, random strings only when accepted; '
                    'emit: distinct request lines'}
    h = ck.cc('h_emit', ['harness/h_emit.c',
                         os.path.join(vlib.REPO, 'src', 'crctab.c')])
    drv = ck.driver()
    if not h:
        return summ
    rc, out, _ = vlib.batch([drv], ['unrle -'])
    if not out or out[0] != 'ok:-':
        ck.broken.append('driver lacks the W12 commands (unrle - -> %r)' % out[:1])
        return summ
    run_delta(ck, h, drv, summ)
    run_emit(ck, h, drv, summ)
    ck.log('w12 delta:', summ['delta'])
    ck.log('w12 emit:', summ['emit'])
    if ck.count:
        summ['violations_by_kind'] = ck.count
    return summ


if __name__ == '__main__':
    ck = vlib.Check('C05')

    def _no_file(what, replay, signature=None, no_input=False):
        ck.violations.append(what)           # standalone: no replay files
        if len(ck.violations) <= 6:
            print('VIOLATION (standalone, not recorded):', what, '|',
                  str(replay)[:400])
    ck.violation = _no_file
    r = run(ck)
    print({k: v for k, v in r.items() if k != 'samples'})
    for b in ck.broken:
        print('BROKEN:', b[:600])
    print('violations:', len(ck.violations), 'broken:', len(ck.broken),
          'wall %.1fs' % (__import__('time').time() - ck.t0))
    sys.exit(1 if ck.violations or ck.broken else 0)
