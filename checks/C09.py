#!/usr/bin/env python3
"""C09 — decompression result is independent of configuration and schedule.

Theorems: Props/C09/*.lean (emit_split: output identical for every list of
output-buffer sizes; SchedD output_eq: sink sequence independent of worker
count, schedule and granularity).  Per run: every stream of a corpus (valid
and invalid) is decoded under random input granularities {4..262144} ×
output granularities {1..900000} × worker counts × slot counts ×
perturbation seeds × {stdout, FILE operand, -c, -t} and compared with the
default configuration and the strict oracle (status and bytes)."""
import os
import shutil
import sys
sys.path.insert(0, os.path.join(os.path.dirname(os.path.abspath(__file__)),
                                '..', 'tools'))
sys.path.insert(0, os.path.dirname(os.path.abspath(__file__)))
from vlib import Check  # noqa: E402
import bz2  # noqa: E402
import camp_decode as C  # noqa: E402
import camp_sched as S  # noqa: E402
import decode_run as D  # noqa: E402
import inproc  # noqa: E402
import proc  # noqa: E402

ck = Check('C09')
ck.regen()
mods = ck.props_modules()
if mods:
    ck.lean(mods)
    ck.require_theorems([
        'LbzVerif.Props.C09.emit_split',
        'LbzVerif.Props.C09.Sched.output_eq',
        'LbzVerif.Props.C09.Retrieve.retrieve_split',
        'LbzVerif.Props.C09.Retrieve.fast_eq_slow',
        'LbzVerif.Props.C09.File.sched_output_is_expandFile',
        'LbzVerif.Props.C09.File.sched_failed_is_expandFile_error',
        'LbzVerif.Props.C09.File.sched_output_indep',
    ])
inproc.run_libs(ck, ['w12_emit', 'w15_retrieve'])
exe = ck.build_lbzip2(asan=False)
rng = ck.rng
evals = nontriv = 0
samples = []
hist = {}
if exe:
    cases, _ = D.build_cases(ck)
    small = [c for c in cases if len(c.data) < 3000 and
             (c.expect is None or len(c.expect) < 6000)]
    rng.shuffle(small)
    small = small[:60 if ck.quick else 400]
    # a few larger multi-block files (scanner finds blocks in parallel)
    bigs = []
    for lvl, n in ((1, 330000), (1, 250000)) if ck.quick else \
            ((1, 330000), (1, 900000), (9, 2000000)):
        p = bytes(rng.choices(range(7), k=n))
        bigs.append(C.Case('big-l%d-%d' % (lvl, n), bz2.compress(p, lvl),
                           'big'))
        bigs[-1].expect = p
    bad = bytearray(bigs[0].data)
    bad[len(bad) // 2] ^= 0x10
    bigs.append(C.Case('big-corrupt', bytes(bad), 'big'))
    try:
        import bzformat as B
        bigs[-1].expect = B.libbz2_decode(bytes(bad))
    except Exception:
        bigs[-1].expect = None
    jobs = []
    meta = []
    root = os.path.join(ck.tmp, 'ops')
    os.makedirs(root)
    for c in small + bigs:
        big = c.tag == 'big'
        for k in range(3 if ck.quick else 10):
            env = S.config_env(rng, big=big)
            n = rng.choice([1, 2, 3, 4, 8])
            mode = rng.choice(['stdout', 'stdout', 'file', '-c', '-t'])
            d = os.path.join(root, '%d' % len(jobs))
            args = ['-d', '-n%d' % n]
            cwd = None
            data = c.data
            if mode in ('file', '-c', '-t'):
                os.makedirs(d)
                with open(os.path.join(d, 'f.bz2'), 'wb') as f:
                    f.write(c.data)
                cwd = d
                data = b''
                if mode == 'file':
                    args += ['f.bz2']
                elif mode == '-c':
                    args += ['-c', 'f.bz2']
                else:
                    args += ['-t', 'f.bz2']
            jobs.append(dict(exe=exe, args=args, data=data, env=env,
                             timeout=300, cwd=cwd))
            meta.append((c, n, env, mode, d))
    res = proc.run_many(jobs)
    for (c, n, env, mode, d), r in zip(meta, res):
        evals += 1
        hist[mode] = hist.get(mode, 0) + 1
        want_status = 'exit0' if c.expect is not None else 'exit1'
        got = r.out
        if mode == 'file':
            p = os.path.join(d, 'f')
            got = None
            if os.path.exists(p):
                with open(p, 'rb') as f:
                    got = f.read()
        ok = r.code() == want_status
        if ok and c.expect is not None:
            if mode == '-t':
                ok = r.out == b''
            else:
                ok = got == c.expect
        if ok and c.expect is None and mode == 'file':
            ok = got is None          # no output file after a rejection
        if not ok:
            sig = None
            if b'VERIF-ASSERT' in r.err:
                sig = 'verif-assert:' + r.err.split(
                    b'VERIF-ASSERT failed: ')[1].split(b'\n')[0].decode(
                        'latin1')
            ck.violation(
                'configuration-dependent result: case %s (%s), mode %s, -n%d,'
                ' env %s: %s, expected %s; output %s' %
                (c.name, c.tag, mode, n, env, r.code(), want_status,
                 'differs' if got is not None else 'missing'),
                {'stream_hex': c.data[:300000].hex(), 'case': c.name,
                 'mode': mode, 'n': n, 'env': env,
                 'stderr': r.err[:200].decode('latin1')}, signature=sig)
        elif c.expect:
            nontriv += 1
        if len(samples) < 6 and evals % 31 == 0:
            samples.append({'case': c.name, 'mode': mode, 'n': n, 'env': env,
                            'result': r.code()})
    shutil.rmtree(root, ignore_errors=True)
ck.log('modes:', hist)
ck.finish({
    'evaluations': evals, 'distinct_nontrivial': nontriv,
    'rule': 'each stream × random (input granularity 4..262144, output '
            'granularity 1..900000, slots, worker count, perturbation seed, '
            'output mode); distinct by construction (seeded); non-trivial = '
            'valid non-empty stream decoded identically',
    'samples': samples, 'mode_histogram': hist, 'exhaustive': False,
}, ['retrieve() suspension points are exercised by the 4-byte input '
    'granularity (every word boundary), not proved'])
