#!/usr/bin/env python3
"""C09 — decompression result is independent of configuration and schedule.

Theorems: Props/C09/*.lean (emit_split: output identical for every list of
output-buffer sizes; SchedD output_eq: sink sequence independent of worker
count, schedule and granularity).  Per run: every stream of a corpus (valid
and invalid) is decoded under random input granularities {4..262144} ×
output granularities {1..900000} × worker counts × slot counts ×
perturbation seeds × {stdout, FILE operand, -c, -t} and compared with the
default configuration and the strict oracle (status and bytes)."""
import os
import shutil
import sys
sys.path.insert(0, os.path.join(os.path.dirname(os.path.abspath(__file__)),
                                '..', 'tools'))
sys.path.insert(0, os.path.dirname(os.path.abspath(__file__)))
from vlib import Check  # noqa: E402
import bz2  # noqa: E402
import camp_decode as C  # noqa: E402
import camp_sched as S  # noqa: E402
import decode_run as D  # noqa: E402
import inproc  # noqa: E402
import proc  # noqa: E402

ck = Check('C09')
ck.regen()
mods = ck.props_modules()
if mods:
    ck.lean(mods)
    ck.require_theorems([
        'LbzVerif.Props.C09.emit_split',
        'LbzVerif.Props.C09.Sched.output_eq',
        'LbzVerif.Props.C09.Retrieve.retrieve_split',
        'LbzVerif.Props.C09.Retrieve.fast_eq_slow',
        'LbzVerif.Props.C09.File.sched_output_is_expandFile',
        'LbzVerif.Props.C09.File.sched_failed_is_expandFile_error',
        'LbzVerif.Props.C09.File.sched_output_indep',
    ])
inproc.run_libs(ck, ['w12_emit', 'w15_retrieve'])
exe = ck.build_lbzip2(asan=False)
rng = ck.rng
evals = nontriv = 0
samples = []
hist = {}
if exe:
    cases, _ = D.build_cases(ck)
    small = [c for c in cases if len(c.data) < 3000 and
             (c.expect is None or len(c.expect) < 6000)]
    rng.shuffle(small)
    small = small[:60 if ck.quick else 400]
    # a few larger multi-block files (scanner finds blocks in parallel)
    bigs = []
    for lvl, n in ((1, 330000), (1, 250000)) if ck.quick else \
            ((1, 330000), (1, 900000), (9, 2000000)):
        p = bytes(rng.choices(range(7), k=n))
        bigs.append(C.Case('big-l%d-%d' % (lvl, n), bz2.compress(p, lvl),
                           'big'))
        bigs[-1].expect = p
    bad = bytearray(bigs[0].data)
    bad[len(bad) // 2] ^= 0x10
    bigs.append(C.Case('big-corrupt', bytes(bad), 'big'))
    try:
        import bzformat as B
        bigs[-1].expect = B.libbz2_decode(bytes(bad))
    except Exception:
        bigs[-1].expect = None
    jobs = []
    meta = []
    root = os.path.join(ck.tmp, 'ops')
    os.makedirs(root)
    for c in small + bigs:
        big = c.tag == 'big'
        for k in range(3 if ck.quick else 10):
            env = S.config_env(rng, big=big)
            n = rng.choice([1, 2, 3, 4, 8])
            mode = rng.choice(['stdout', 'stdout', 'file', '-c', '-t'])
            d = os.path.join(root, '%d' % len(jobs))
            args = ['-d', '-n%d' % n]
            cwd = None
            data = c.data
            if mode in ('file', '-c', '-t'):
                os.makedirs(d)
                with open(os.path.join(d, 'f.bz2'), 'wb') as f:
                    f.write(c.data)
                cwd = d
                data = b''
                if mode == 'file':
                    args += ['f.bz2']
                elif mode == '-c':
                    args += ['-c', 'f.bz2']
                else:
                    args += ['-t', 'f.bz2']
            jobs.append(dict(exe=exe, args=args, data=data, env=env,
                             timeout=300, cwd=cwd))
            meta.append((c, n, env, mode, d))
    res = proc.run_many(jobs)
    for (c, n, env, mode, d), r in zip(meta, res):
        evals += 1
        hist[mode] = hist.get(mode, 0) + 1
        want_status = 'exit0' if c.expect is not None else 'exit1'
        got = r.out
        if mode == 'file':
            p = os.path.join(d, 'f')
            got = None
            if os.path.exists(p):
                with open(p, 'rb') as f:
                    got = f.read()
        ok = r.code() == want_status
        if ok and c.expect is not None:
            if mode == '-t':
                ok = r.out == b''
            else:
                ok = got == c.expect
        if ok and c.expect is None and mode == 'file':
            ok = got is None          # no output file after a rejection
        if not ok:
            sig = None
            if b'VERIF-ASSERT' in r.err:
                sig = 'verif-assert:' + r.err.split(
                    b'VERIF-ASSERT failed: ')[1].split(b'\n')[0].decode(
                        'latin1')
            ck.violation(
                'configuration-dependent result: case %s (%s), mode %s, -n%d,'
                ' env %s: %s, expected %s; output %s' %
                (c.name, c.tag, mode, n, env, r.code(), want_status,
                 'differs' if got is not None else 'missing'),
                {'stream_hex': c.data[:300000].hex(), 'case': c.name,
                 'mode': mode, 'n': n, 'env': env,
                 'stderr': r.err[:200].decode('latin1')}, signature=sig)
        elif c.expect:
            nontriv += 1
        if len(samples) < 6 and evals % 31 == 0:
            samples.append({'case': c.name, 'mode': mode, 'n': n, 'env': env,
                            'result': r.code()})
    shutil.rmtree(root, ignore_errors=True)
    # ---- a reader that lags behind the parser: the input arrives through a
    # pipe that pauses at a chosen byte, with one-word input buffers, so the
    # header parser is suspended there and resumed by ANOTHER task invocation
    # (state kept anywhere but in the parser state is lost).  Pauses are put
    # around every stored CRC / header field of the file.
    import subprocess
    import threading
    import time
    import bzformat as B

    def lagging(data, k, n, granul):
        env = {kk: v for kk, v in os.environ.items()
               if not kk.startswith('LBZIP2') and kk not in ('BZIP2', 'BZIP')}
        env['LBZIP2_VERIF_IN_GRANUL'] = str(granul)
        env['LBZIP2_VERIF_CHECK'] = '1'
        p = subprocess.Popen([exe, '-d', '-n%d' % n], stdin=subprocess.PIPE,
                             stdout=subprocess.PIPE, stderr=subprocess.PIPE,
                             env=env)

        def feed():
            try:
                p.stdin.write(data[:k])
                p.stdin.flush()
                time.sleep(0.12)
                p.stdin.write(data[k:])
            except OSError:
                pass
            finally:
                try:
                    p.stdin.close()
                except OSError:
                    pass
        t = threading.Thread(target=feed)
        t.start()
        try:
            out = p.stdout.read()
            err = p.stderr.read()
            rc = p.wait(timeout=120)
        except subprocess.TimeoutExpired:
            p.kill()
            rc, out, err = 'timeout', b'', b''
        t.join()
        return rc, out, err
    lag = [c for c in small if c.expect and 40 < len(c.data) < 1500]
    lag = lag[:4 if ck.quick else 30]
    ljobs = []
    for c in lag:
        try:
            _, infos, meta_ = B.strict_decode(c.data, want_info=True, full=False)
        except Exception:
            continue
        pts = set()
        for bit in [i['bit_start'] for i in infos] + list(meta_['eos_bits']):
            for d_ in (48, 64, 80):          # magic | crc hi | crc lo
                pts.add((bit + d_) // 8)
                pts.add((bit + d_ + 7) // 8)
        pts = sorted(x for x in pts if 4 < x < len(c.data))
        if ck.quick and len(pts) > 10:
            pts = sorted(rng.sample(pts, 10))
        for k in pts:
            ljobs.append((c, k, rng.choice([1, 2, 4]), rng.choice([4, 4, 8])))
    from concurrent.futures import ThreadPoolExecutor
    with ThreadPoolExecutor(max_workers=12) as ex:
        lres = list(ex.map(lambda j: lagging(j[0].data, j[1], j[2], j[3]), ljobs))
    for (c, k, n, g), (rc, out, err) in zip(ljobs, lres):
        evals += 1
        hist['lagging-reader'] = hist.get('lagging-reader', 0) + 1
        if rc != 0 or out != c.expect:
            ck.violation(
                'configuration-dependent result: case %s decoded through a '
                'pipe that pauses at byte %d (input buffers of %d bytes, -n%d): '
                'status %r, %d bytes (expected 0, %d), stderr %r' %
                (c.name, k, g, n, rc, len(out), len(c.expect), err[:160]),
                {'stream_hex': c.data.hex(), 'case': c.name, 'pause_at_byte': k,
                 'n': n, 'env': {'LBZIP2_VERIF_IN_GRANUL': str(g)},
                 'how': 'write stream[:k] to lbzip2 -d stdin, wait 0.12 s, '
                        'write the rest'})
        else:
            nontriv += 1
ck.log('modes:', hist)
ck.finish({
    'evaluations': evals, 'distinct_nontrivial': nontriv,
    'rule': 'each stream × random (input granularity 4..262144, output '
            'granularity 1..900000, slots, worker count, perturbation seed, '
            'output mode); distinct by construction (seeded); non-trivial = '
            'valid non-empty stream decoded identically',
    'samples': samples, 'mode_histogram': hist, 'exhaustive': False,
}, ['retrieve() suspension points are exercised by the 4-byte input '
    'granularity (every word boundary), not proved'])
