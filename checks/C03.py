#!/usr/bin/env python3
"""C03 — compressed bytes depend only on the input and the options.

Theorems: Props/C03.lean (SchedC.output_eq over every interleaving and worker
count; xread_chunks over every read fragmentation; xwrite_all over every
short-write pattern), with guards / priorities / capacities taken from the
regenerated Gen.  Per run: each input is compressed under a matrix of worker
counts, perturbation seeds, stdin as file / pipe fed in random fragments,
stdout as pipe / file, FILE operand; all outputs are byte-compared with the
-n1 run of the same (level, mode)."""
import os
import sys
sys.path.insert(0, os.path.join(os.path.dirname(os.path.abspath(__file__)),
                                '..', 'tools'))
from vlib import Check  # noqa: E402
import camp_encode as E  # noqa: E402
import proc  # noqa: E402

ck = Check('C03')
ck.regen()
mods = ck.props_modules()
if mods:
    ck.lean(mods)
    ck.require_theorems([
        'LbzVerif.Props.C03.xread_chunks',
        'LbzVerif.Props.C03.xwrite_all',
        'LbzVerif.Props.C03.output_eq_partial',
        'LbzVerif.Props.C03.output_eq',
        'LbzVerif.Props.C03.output_canon',
        'LbzVerif.Props.C03.File.file_eq',
        'LbzVerif.Props.C03.File.file_eq_gen',
        'LbzVerif.Props.C03.File.file_is_function',
    ])
exe = ck.build_lbzip2(asan=False)
rng = ck.rng
evals = 0
nontriv = 0
samples = []
hist = {}
if exe:
    allin = E.inputs(rng, ck.quick)
    pick = ['empty', 'one', 'run259', 'text', 'norun-100k+1', 'norun-200k-1',
            'cross-99998-5', 'cross-99997-300', 'runs-of-4', 'long-run-mix',
            'random-300k', 'alpha5-350k', 'fib', 'tandem1024']
    I = [x for x in allin if x[0] in pick]
    if not ck.quick:
        I = allin
    work = os.path.join(ck.tmp, 'w')
    os.makedirs(work)
    for name, data, tag in I:
        for lvl, seq in ([(1, False), (1, True)] if ck.quick else
                         [(1, False), (1, True), (5, False), (9, True)]):
            if lvl == 9 and len(data) > 1200000:
                continue
            base_args = ['-%d' % lvl] + (['-u'] if seq else [])
            ref = proc.run1(exe, base_args + ['-n1'], data, timeout=300)
            if ref.code() != 'exit0':
                ck.violation('reference run failed: %r' % ref,
                             {'input': name, 'level': lvl, 'seq': seq})
                continue
            configs = []
            nconf = 7 if ck.quick else 24
            for k in range(nconf):
                n = rng.choice([2, 3, 4, 5, 8, 16])
                env = {'LBZIP2_VERIF_CHECK': '1'}
                if rng.random() < 0.7:
                    env['LBZIP2_VERIF_PERTURB'] = str(rng.randrange(1, 10**6))
                how = rng.choice(['pipe', 'frag', 'file-stdin', 'file-stdout',
                                  'operand', 'frag'])
                configs.append((n, env, how))
            for n, env, how in configs:
                evals += 1
                hist[how] = hist.get(how, 0) + 1
                args = base_args + ['-n%d' % n]
                out = None
                if how == 'pipe':
                    r = proc.run1(exe, args, data, env=env, timeout=300)
                    out = r.out
                elif how == 'frag':
                    r = E.run_fragmented(exe, args, data, rng, env=env,
                                         timeout=300)
                    out = r.out
                elif how in ('file-stdin', 'file-stdout'):
                    ip = os.path.join(work, 'in')
                    op = os.path.join(work, 'out')
                    with open(ip, 'wb') as f:
                        f.write(data)
                    import subprocess
                    e = dict(os.environ)
                    e.update(env)
                    with open(ip, 'rb') as fi, open(op, 'wb') as fo:
                        if how == 'file-stdin':
                            p = subprocess.run([exe] + args, stdin=fi,
                                               stdout=fo, env=e,
                                               stderr=subprocess.PIPE,
                                               timeout=300)
                        else:
                            p = subprocess.run([exe] + args, input=data,
                                               stdout=fo, env=e,
                                               stderr=subprocess.PIPE,
                                               timeout=300)
                    r = proc.Res(p.returncode, None, b'', p.stderr, False)
                    with open(op, 'rb') as f:
                        out = f.read()
                else:
                    ip = os.path.join(work, 'opnd')
                    with open(ip, 'wb') as f:
                        f.write(data)
                    if os.path.exists(ip + '.bz2'):
                        os.unlink(ip + '.bz2')
                    r = proc.run1(exe, args + [ip], b'', env=env, timeout=300)
                    if os.path.exists(ip + '.bz2'):
                        with open(ip + '.bz2', 'rb') as f:
                            out = f.read()
                        os.unlink(ip + '.bz2')
                if r.code() != 'exit0' or out != ref.out:
                    ck.violation(
                        'compressed bytes differ from the -n1 run (input %s, '
                        'level %d, seq %s, -n%d, %s, env %s): %s, %s bytes vs '
                        '%d' % (name, lvl, seq, n, how, env, r.code(),
                                None if out is None else len(out),
                                len(ref.out)),
                        {'input_family': name, 'input_hex': data.hex()
                         if len(data) < 70000 else None, 'level': lvl,
                         'seq': seq, 'n': n, 'env': env, 'how': how,
                         'seed': ck.seed})
                elif len(data) > 0:
                    nontriv += 1
                if len(samples) < 6 and evals % 29 == 0:
                    samples.append({'input': name, 'bytes': len(data),
                                    'level': lvl, 'seq': seq, 'n': n,
                                    'how': how, 'env': env,
                                    'sha1': E.sha(out or b'')})
ck.log('configurations:', hist)
ck.finish({
    'evaluations': evals, 'distinct_nontrivial': nontriv,
    'rule': 'each (input, level, mode) is compressed under random (worker '
            'count, perturbation seed, input/output plumbing) configurations '
            'and byte-compared with its -n1 reference; every configuration is '
            'distinct by construction (seeded), non-trivial = non-empty input '
            'and identical bytes confirmed',
    'samples': samples, 'plumbing_histogram': hist, 'exhaustive': False,
}, ['determinism of the per-block C functions is observed, not proved'])
