#!/usr/bin/env python3
"""C10 — speculative block discovery never influences the output.

Theorems: Props/C10.lean (spec_safe over the SchedD transition system with an
arbitrary candidate set and uninterpreted parse/retrieve functions; guards
from the regenerated Gen).  Per run: streams with the 48-bit block magic
planted inside Huffman-coded data (junk after it, complete decodable blocks,
two magics, EOS look-alikes), at varying bit offsets and hence across
input-block boundaries for the small granularities, and in trailing data
(including complete valid streams after one garbage byte), decoded under
many worker counts / granularities / seeds and compared with the sequential
oracle; hook assertions on."""
import os
import sys
sys.path.insert(0, os.path.join(os.path.dirname(os.path.abspath(__file__)),
                                '..', 'tools'))
sys.path.insert(0, os.path.dirname(os.path.abspath(__file__)))
from vlib import Check  # noqa: E402
import bzformat as B  # noqa: E402
import camp_sched as S  # noqa: E402
import proc  # noqa: E402

ck = Check('C10')
ck.regen()
mods = ck.props_modules()
if mods:
    ck.lean(mods)
    ck.require_theorems([
        'LbzVerif.Props.C10.spec_safe',
        'LbzVerif.Props.C10.sink_only_order_head',
        'LbzVerif.Props.C10.bogus_dropped',
        'LbzVerif.Props.C10.File.speculation_invisible',
        'LbzVerif.Props.C10.File.speculation_output',
        'LbzVerif.Props.C10.File.speculation_never_fails',
        'LbzVerif.Props.C10.File.speculation_never_rescues',
    ])
exe = ck.build_lbzip2(asan=False)
rng = ck.rng
evals = nontriv = 0
samples = []
hist = {}
discard_seen = 0
if exe:
    streams = S.planted_streams(rng, ck.quick)
    for name, data, plain, tag in streams:
        # the oracle must agree with the generator's expectation
        try:
            o = B.strict_decode(data)
        except B.Reject as e:
            ck.broken.append('generator produced an invalid stream %s: %s' %
                             (name, e))
            continue
        if o != plain:
            ck.broken.append('oracle and generator disagree on ' + name)
            continue
    jobs = []
    meta = []
    nconf = 10 if ck.quick else 60
    for name, data, plain, tag in streams:
        for k in range(nconf):
            env = S.config_env(rng)
            n = rng.choice([1, 2, 3, 4, 8])
            tf = os.path.join(ck.tmp, 'tr-%d' % len(jobs))
            if k < 2:
                env['LBZIP2_VERIF_TRACE'] = tf
            jobs.append(dict(exe=exe, args=['-d', '-n%d' % n], data=data,
                             env=env, timeout=120))
            meta.append((name, data, plain, tag, n, env))
    # directed schedules: scripted delays at the retrieve / emit jobs of the
    # host block, the spurious block and their neighbours (positions known
    # from the generator), default and small granularities, few workers
    for name, data, plain, tag in streams:
        for k in range(6 if ck.quick else 40):
            sc = S.delay_script(rng, name)
            if not sc:
                continue
            env = {'LBZIP2_VERIF_CHECK': '1', 'LBZIP2_VERIF_DELAY': sc}
            if rng.random() < 0.3:
                env['LBZIP2_VERIF_OUT_GRANUL'] = str(rng.choice([64, 4096]))
            if rng.random() < 0.4:
                env['LBZIP2_VERIF_OUT_SLOTS'] = str(rng.choice([3, 4]))
            n = rng.choice([2, 2, 3, 4])
            jobs.append(dict(exe=exe, args=['-d', '-n%d' % n], data=data,
                             env=env, timeout=120))
            meta.append((name, data, plain, tag + '+delays', n, env))
    res = proc.run_many(jobs, workers=32)
    for (name, data, plain, tag, n, env), r in zip(meta, res):
        evals += 1
        hist[tag] = hist.get(tag, 0) + 1
        e2 = {k: v for k, v in env.items() if k != 'LBZIP2_VERIF_TRACE'}
        if r.code() != 'exit0' or r.out != plain:
            sig = None
            if b'VERIF-ASSERT' in r.err:
                sig = 'verif-assert:' + r.err.split(b'VERIF-ASSERT failed: ')[1].split(b'\n')[0].decode('latin1')
            ck.violation(
                'stream with a spurious block header decoded differently '
                'from the sequential decoding: %s, %d bytes (expected %d), '
                '-n%d, env %s, stderr %r' % (r.code(), len(r.out),
                                             len(plain), n, e2, r.err[:160]),
                {'stream_hex': data.hex(), 'case': name, 'tag': tag, 'n': n,
                 'env': e2, 'cmd': 'lbzip2 -d -n%d < stream' % n},
                signature=sig)
        else:
            nontriv += 1
        tf = env.get('LBZIP2_VERIF_TRACE')
        if tf and os.path.exists(tf):
            with open(tf) as f:
                t = f.read()
            # the scanner found something that never became an order head:
            # an unord entry existed at some point
            if ' unord=1' in t or ' unord=2' in t:
                discard_seen += 1
            os.unlink(tf)
        if len(samples) < 6 and evals % 17 == 0:
            samples.append({'case': name, 'tag': tag, 'n': n, 'env': e2,
                            'bytes': len(data), 'result': r.code(),
                            'stream_hex': data.hex() if len(data) < 400
                            else data[:200].hex() + '...'})
    # ---- streams of DIFFERENT declared levels in one file: a block found by
    # the scanner in a later stream may be decoded (and judged) before the
    # parser has even reached that stream's header.  The verdict must be the
    # sequential one: the block's own stream decides its size limit.
    import bz2

    def lowent(k):
        return bytes(rng.choice(b'abcdefgh \n') for _ in range(k))
    first1 = bz2.compress(lowent(250000), 1)            # three level-1 blocks
    first9 = bz2.compress(lowent(60000), 9)
    mid = lowent(150000)                                # fits level 2, not 1
    ok12 = first1 + bz2.compress(mid, 2)
    z2 = bytearray(bz2.compress(mid, 2))
    z2[3] = 0x31                    # declares level 1, carries 150000 bytes
    bad91 = first9 + bytes(z2)
    mixed = [('mixed-level-1-then-2', ok12, bz2.decompress(ok12)),
             ('mixed-level-9-then-overfull-1', bad91, None)]
    try:
        B.strict_decode(bad91)
        ck.broken.append('oracle accepts the overfull level-1 block')
    except B.Reject:
        pass
    mjobs, mmeta = [], []
    for name, data, plain in mixed:
        for k in range(8 if ck.quick else 40):
            n = rng.choice([2, 2, 3, 4, 8])
            env = {'LBZIP2_VERIF_CHECK': '1'}
            if k % 4 != 3:       # hold the parser back at its first section
                env['LBZIP2_VERIF_DELAY'] = 'parse:0:0=%d' % rng.choice([150, 300])
            else:
                env['LBZIP2_VERIF_PERTURB'] = str(rng.randrange(1, 10**6))
            g = rng.choice([None, None, 65536, 262144])
            if g:
                env['LBZIP2_VERIF_IN_GRANUL'] = str(g)
            mjobs.append(dict(exe=exe, args=['-d', '-n%d' % n], data=data,
                              env=env, timeout=120))
            mmeta.append((name, data, plain, n, env))
    for (name, data, plain, n, env), r in zip(mmeta, proc.run_many(mjobs, workers=16)):
        evals += 1
        hist['mixed-levels'] = hist.get('mixed-levels', 0) + 1
        good = (r.code() == 'exit0' and r.out == plain) if plain is not None \
            else (r.code() == 'exit1' and r.err)
        if good:
            nontriv += 1
            continue
        ck.violation(
            'concatenated streams of different levels: the run differs from '
            'the sequential decoding (%s): %s, %d bytes, -n%d, env %s, stderr %r'
            % ('expected the %d bytes of both streams' % len(plain)
               if plain is not None else 'expected rejection: the second '
               'stream declares level 1 and carries a 150000-byte block',
               r.code(), len(r.out), n, env, r.err[:160]),
            {'stream_hex': data.hex(), 'case': name, 'n': n, 'env': env,
             'cmd': 'lbzip2 -d -n%d < stream' % n})
ck.log('families:', hist, 'traces with speculative candidates:', discard_seen)
ck.finish({
    'evaluations': evals, 'distinct_nontrivial': nontriv,
    'rule': 'each planted stream × random (worker count, input/output '
            'granularity, slot count, perturbation seed); distinct by '
            'construction; non-trivial = decoded to exactly the sequential '
            'decoding although a spurious header is present',
    'samples': samples, 'families': hist,
    'traces_with_speculative_candidates': discard_seen,
    'exhaustive': False,
}, ['binary tied to the model by output comparison and hook assertions'])
