#!/usr/bin/env python3
"""W23 — whole-file compressor model: non-vacuity and correspondence campaign.

Library: `run(ck)` is called by the property checks (C01, C02); stand-alone
`python3 checks/w23_roundtrip.py [--tier quick|thorough]` runs the campaign for
testing and writes NO evidence.

The theorems `Props.C01.Roundtrip.roundtrip` / `roundtrip_sched` and
`Props.C02.Inspect.inspect_compress` are about `Model.Compress.compressFile
level seq input choose` for every choice function meeting the contract
`ChoicesOK`.  The driver command `compressfile[x]` runs that very function
(compiled) with an executable choice function (naive BWT + dummy tables, or
rotated tables with cycling selectors) after EVALUATING the contract on every
block.  For every generated input this campaign

  judges (independent of the model's proofs):
    * the model's stream is decoded to the input by libbz2 (Python `bz2`) and by
      the independent strict parser tools/bzformat.py `strict_decode`, which
      also reports one stream ending at the last byte, rand = 0, 2..6 complete
      tables with lengths 1..20, <= 18002 selectors, nblock <= level*100000
      (C02), and the Lean oracle (`decode` / `inspect` of CmdSpec) agrees;
    * the model's block cutting equals the independent Python packing rule
      `bzformat.pack_blocks` (also for test-only tiny capacities 5..64 with
      chunk sizes below / at / above the capacity: multi-block files);
  correspondence (model vs the REAL lbzip2 built from /repo, same input,
  default capacities):
    * the real stream decodes to the input (C01 on the real code) and its
      per-block list (stored CRC, nblock, used byte set, number of prefix-coded
      symbols, origPtr) equals the model's.  The bytes differ: the real table
      and selector choices differ (that is what `ChoicesOK` abstracts).
      origPtr may legitimately differ when the block is a proper power of a
      shorter word (several rotations are equal); that case is recognised.
    * the choices the REAL encoder made — read back from its stream: origPtr,
      number of tables, code lengths in transmitted order, selectors; the sorted
      block L recomputed by the independent `bzformat.bwt` — are fed into the
      model (`compresswith`): the contract `ChoicesOK` must HOLD for them (the
      hypothesis of the theorems is met by what the C code chooses) and the
      model must then write the real file BYTE FOR BYTE (encode() + transmit()
      + header / trailer / combined CRC against `encodeBlock` / `assemble`).
      Also for inputs of 2..9 kB, where the real encoder uses up to 6 tables.
"""
import bz2
import hashlib
import os
import subprocess
import sys
import time

HERE = os.path.dirname(os.path.abspath(__file__))
sys.path.insert(0, os.path.join(HERE, '..', 'tools'))

import bzformat  # noqa: E402

THEOREMS = {
    'C01': ['LbzVerif.Props.C01.Roundtrip.block_roundtrip',
            'LbzVerif.Props.C01.Roundtrip.roundtrip_gen',
            'LbzVerif.Props.C01.Roundtrip.roundtrip',
            'LbzVerif.Props.C01.Roundtrip.roundtrip_empty',
            'LbzVerif.Props.C01.Roundtrip.roundtrip_simple',
            'LbzVerif.Props.C01.Roundtrip.roundtrip_naive',
            'LbzVerif.Props.C01.Roundtrip.choicesOK_satisfiable',
            'LbzVerif.Props.C01.Roundtrip.roundtrip_sched_naive',
            'LbzVerif.Props.C01.Roundtrip.roundtrip_sched_naive_gen',
            'LbzVerif.Props.C01.Roundtrip.assemble_sched',
            'LbzVerif.Props.C01.Roundtrip.roundtrip_sched',
            'LbzVerif.Props.C01.Roundtrip.roundtrip_sched_gen'],
    'C02': ['LbzVerif.Props.C02.Inspect.inspect_compress_gen',
            'LbzVerif.Props.C02.Inspect.inspect_compress',
            'LbzVerif.Props.C02.Inspect.inspect_compress_aligned',
            'LbzVerif.Props.C02.Inspect.inspect_compress_naive'],
}


def sha(*a):
    return hashlib.sha1(repr(a).encode()).hexdigest()


def hx(b):
    return b.hex() if b else '-'


# ------------------------------------------------------------ generators
def gen_inputs(rng, quick):
    """(tag, bytes), 0..600 bytes."""
    out = []

    def add(tag, d):
        out.append((tag, bytes(d)))

    add('empty', [])
    for v in (0, 65, 255):
        add('one-byte', [v])
    for n in (2, 3, 5, 9):
        add('tiny', [rng.randrange(256) for _ in range(n)])
    # runs: first run-length layer boundaries 3/4/5, count byte 255 and beyond
    for n in (3, 4, 5, 258, 259, 260, 261, 262, 263):
        c = rng.randrange(256)
        add('run%d' % n, [c] * n)
        add('run%d-mix' % n, [rng.randrange(256)] + [c] * n + [rng.randrange(256)] * rng.randint(1, 5))
    add('run4-of-count-byte', [4, 4, 4, 4] + [0] * 4 + [255] * 260)
    add('two-runs', [7] * 300 + [9] * 280)
    # few symbols
    for k in (1, 2, 3, 4):
        for n in (10, 60, 151, 333, 600):
            vals = rng.sample(range(256), k)
            add('k%d' % k, [rng.choice(vals) for _ in range(n)])
    # periodic blocks (several equal rotations)
    add('periodic-ab', [97, 98] * 150)
    add('periodic-abc', [1, 2, 3] * 100)
    add('periodic-long', [rng.randrange(256) for _ in range(40)] * 12)
    # all 256 values
    add('all256', list(range(256)))
    add('all256-rev-twice', list(range(255, -1, -1)) * 2)
    add('all256-shuffled', rng.sample(range(256), 256) + rng.sample(range(256), 200))
    # text-like, markov, random
    words = [b'the', b'quick', b'brown', b'fox', b'jumps', b'over', b'lazy', b'dog',
             b'aaaa', b'bbbbbbbb']
    t = b' '.join(rng.choice(words) for _ in range(110))[:600]
    add('text', t)
    nrand = 40 if quick else 400
    for _ in range(nrand):
        n = rng.choice([1, 7, 49, 50, 51, 99, 100, 101, 149, 150, 151, 200, 299, 300, 400, 599, 600])
        kind = rng.choice(['uniform', 'markov', 'runs', 'smallalpha'])
        if kind == 'uniform':
            d = [rng.randrange(256) for _ in range(n)]
        elif kind == 'markov':
            d, cur = [], rng.randrange(256)
            for _ in range(n):
                if rng.random() < 0.35:
                    cur = rng.randrange(256)
                d.append(cur)
        elif kind == 'runs':
            d = []
            while len(d) < n:
                d += [rng.choice([0, 1, 255, rng.randrange(256)])] * rng.choice([1, 2, 3, 4, 5, 6, 20, 270])
            d = d[:n]
        else:
            vals = rng.sample(range(256), rng.randint(2, 9))
            d = [rng.choice(vals) for _ in range(n)]
        add('rand-' + kind, d)
    return out


def gen_cases(rng, quick):
    """(tag, level, seq, cap, granul, mode, data, real) — `real`: also run the real
    lbzip2 (possible only with the true capacity)."""
    cases = []
    inputs = gen_inputs(rng, quick)
    for i, (tag, d) in enumerate(inputs):
        level = rng.randint(1, 9) if i >= 9 else i + 1
        seq = rng.randint(0, 1)
        mode = rng.randint(0, 1)
        cases.append((tag, level, seq, level * 100000, level * 100000, mode, d, True))
    # multi-block: tiny test capacities
    multi = [x for x in inputs if len(x[1]) >= 10]
    nmulti = 60 if quick else 600
    for _ in range(nmulti):
        tag, d = rng.choice(multi)
        if len(d) > 300:
            off = rng.randrange(len(d) - 200)
            d = d[off:off + rng.randint(60, 300)]
        cap = rng.randint(5, 64)
        granul = rng.choice([cap, cap, max(1, cap - rng.randint(1, 4)), cap + rng.randint(1, 40),
                             rng.randint(1, 6), 100000])
        cases.append((tag + '-multi', rng.randint(1, 9), rng.randint(0, 1), cap, granul,
                      rng.randint(0, 1), d, False))
    return cases


# ------------------------------------------------------------- plumbing
def drv_batch(drv, lines, nproc=8, timeout=3000):
    from concurrent.futures import ThreadPoolExecutor
    if not lines:
        return [], None
    nproc = max(1, min(nproc, len(lines)))
    chunks = [lines[i::nproc] for i in range(nproc)]

    def one(ch):
        r = subprocess.run([drv], input='\n'.join(ch) + '\n', text=True,
                           stdout=subprocess.PIPE, stderr=subprocess.PIPE, timeout=timeout)
        o = r.stdout.split('\n')
        if o and o[-1] == '':
            o.pop()
        return r.returncode, o, r.stderr

    with ThreadPoolExecutor(nproc) as ex:
        res = list(ex.map(one, chunks))
    out = [None] * len(lines)
    err = None
    for i, (rc, o, e) in enumerate(res):
        if rc != 0 or len(o) != len(chunks[i]):
            err = 'exit %s, %d/%d replies: %s' % (rc, len(o), len(chunks[i]), e[-500:])
        for j, line in enumerate(o[:len(chunks[i])]):
            out[i + j * nproc] = line
    return out, err


def block_key(info):
    return (info['crc'], info['nblock'], tuple(info['used']), info['nsyms'])


def choice_arg(d, infos):
    """the `compresswith` argument for the choices found in a parsed stream"""
    out, pos = [], 0
    for inf in infos:
        rb = bzformat.rle1(d[pos:pos + inf['plain_len']])
        pos += inf['plain_len']
        last, _ = bzformat.bwt(rb)
        out.append(';'.join([
            last.hex(), str(inf['origptr']), str(len(inf['lens'])),
            '/'.join(','.join(map(str, ls)) for ls in inf['lens']),
            ','.join(map(str, inf['selectors'][:inf['groups_used']]))]))
    return '|'.join(out) if out else '-'


def gen_medium(rng, quick):
    out = []
    for k in range(10 if quick else 60):
        n = rng.choice([350, 700, 700, 1300, 1300, 2500, 2500, 5000, 9000])
        vals = rng.sample(range(256), rng.choice([2, 5, 17, 60, 256]))
        kind = k % 4
        if kind in (0, 3):
            d = [rng.choice(vals) for _ in range(n)]
        elif kind == 1:
            d, cur = [], vals[0]
            for _ in range(n):
                if rng.random() < 0.4:
                    cur = rng.choice(vals)
                d.append(cur)
        else:
            d = []
            while len(d) < n:
                sub = rng.sample(vals, min(len(vals), rng.randint(1, 6)))
                d += [rng.choice(sub) for _ in range(rng.randint(20, 500))]
            d = d[:n]
        out.append(('medium%d' % n, rng.randint(1, 9), rng.randint(0, 1), bytes(d)))
    return out


def periodic(blk):
    n = len(blk)
    return n > 1 and (blk + blk).find(blk, 1) < n


def c02_rules(data, infos, meta, level):
    """the producer-side rules of C02 on a strict parse; returns a complaint or None"""
    if meta['streams'] != 1:
        return 'streams=%d' % meta['streams']
    if meta['end_byte'] != len(data):
        return 'trailing bytes: end %d of %d' % (meta['end_byte'], len(data))
    for k, inf in enumerate(infos):
        if inf['level'] != level:
            return 'block %d level %d' % (k, inf['level'])
        if inf['rand']:
            return 'block %d randomised' % k
        if not (1 <= inf['nblock'] <= level * 100000):
            return 'block %d nblock %d' % (k, inf['nblock'])
        if not inf['origptr'] < inf['nblock']:
            return 'block %d origptr' % k
        if not (2 <= len(inf['lens']) <= 6):
            return 'block %d tables %d' % (k, len(inf['lens']))
        for ls in inf['lens']:
            if any(x < 1 or x > 20 for x in ls) or not bzformat.complete(ls):
                return 'block %d table not complete / out of range' % k
        if not (1 <= len(inf['selectors']) <= 18002):
            return 'block %d selectors %d' % (k, len(inf['selectors']))
    return None


# ------------------------------------------------------------------ run
def run(ck):
    t0 = time.time()
    if ck.obligations and ck.pid in THEOREMS:
        ck.require_theorems(THEOREMS[ck.pid])
    rng = ck.rng
    quick = ck.quick
    drv = ck.driver()
    cov = {'library': 'w23_roundtrip', 'evaluations': 0, 'distinct_nontrivial': 0}
    if not os.path.exists(drv):
        ck.broken.append('w23: driver %s missing' % drv)
        return cov
    probe, perr = drv_batch(drv, ['compressfile 1 0 -'], nproc=1)
    if perr or probe != ['ok 425a683117724538509000000000']:
        ck.broken.append('w23: driver lacks compressfile (reply %r %r)' % (probe, perr))
        return cov
    lbz = ck.build_lbzip2(name='lbzip2-w23', asan=False)
    if not lbz:
        return cov

    cases = gen_cases(rng, quick)
    lines = ['compressfilex %d %d %d %d %d %s' % (lv, sq, cap, gr, md, hx(d))
             for _, lv, sq, cap, gr, md, d, _ in cases]
    rep, err = drv_batch(drv, lines)
    if err:
        ck.broken.append('w23: driver failed: ' + err)
        return cov
    # the short form must be the long form with the true capacity and mode 0
    short = [(i, c) for i, c in enumerate(cases) if c[7] and c[5] == 0]
    srep, serr = drv_batch(drv, ['compressfile %d %d %s' % (c[1], c[2], hx(c[6])) for _, c in short])
    if serr:
        ck.broken.append('w23: driver failed: ' + serr)
        return cov
    for (i, c), r in zip(short, srep):
        if r != rep[i]:
            ck.broken.append('correspondence: w23 compressfile != compressfilex on %s' % c[0])
            break

    corr = []
    seen = set()
    dist = {'blocks1': 0, 'blocks2-5': 0, 'blocks6+': 0, 'empty': 0, 'seq': 0, 'mode1': 0,
            'real': 0, 'periodic': 0, 'levels': set(), 'sizes': []}
    samples = []
    oracle_lines = []
    oracle_idx = []
    with_cases = []
    for i, (tag, lv, sq, cap, gr, md, d, real) in enumerate(cases):
        cov['evaluations'] += 1
        r = rep[i]
        rp = {'how': 'lbzdrv: ' + lines[i][:4000], 'level': lv, 'sequential': sq, 'cap': cap,
              'granul': gr, 'mode': md, 'plaintext_hex': d.hex()[:4000], 'tag': tag}
        if r is None or not r.startswith('ok '):
            # the test oracle's own choice function violates the contract: the
            # theorems are not exercised (not a property failure)
            corr.append('model reply %r on %s (ChoicesOK of the driver\'s choice function)' % (r, tag))
            continue
        stream = bytes.fromhex(r[3:])
        # ---- judge: libbz2 and the strict Python parser
        try:
            got = bz2.decompress(stream)
        except Exception as e:       # noqa: BLE001
            got = 'libbz2: %r' % e
        if got != d:
            ck.violation('model stream not decoded to the input by libbz2 (%s)' % tag,
                         dict(rp, stream_hex=stream.hex()[:4000], got=str(got)[:200]),
                         no_input=True)
            continue
        try:
            plain, infos, meta = bzformat.strict_decode(stream, want_info=True)
        except bzformat.Reject as e:
            ck.violation('model stream rejected by the strict parser: %s (%s)' % (e, tag),
                         dict(rp, stream_hex=stream.hex()[:4000]), no_input=True)
            continue
        if plain != d:
            ck.violation('model stream decoded to other bytes by the strict parser (%s)' % tag,
                         dict(rp, stream_hex=stream.hex()[:4000]), no_input=True)
            continue
        bad = c02_rules(stream, infos, meta, lv)
        if bad:
            ck.violation('model stream violates a C02 rule: %s (%s)' % (bad, tag),
                         dict(rp, stream_hex=stream.hex()[:4000]), no_input=True)
            continue
        # ---- judge: block cutting against the independent packing rule
        want_cut = bzformat.pack_blocks(d, cap, None if sq else gr)
        if [inf['plain_len'] for inf in infos] != want_cut:
            corr.append('block cutting of the model differs from pack_blocks on %s: %r vs %r'
                        % (tag, [inf['plain_len'] for inf in infos][:8], want_cut[:8]))
            continue
        if len(stream) <= 700 and (i % 4 == 0 or not quick):
            oracle_lines.append('decode ' + stream.hex())
            oracle_lines.append('inspect ' + stream.hex())
            oracle_idx.append(i)
        # ---- correspondence with the real program
        if real:
            args = [lbz, '-%d' % lv, '-n', str(rng.choice([1, 2, 3]))] + (['-u'] if sq else [])
            p = subprocess.run(args, input=d, stdout=subprocess.PIPE, stderr=subprocess.PIPE,
                               timeout=120)
            rpr = dict(rp, how=' '.join(args[1:]) + ' < plaintext')
            if p.returncode != 0 or p.stderr:
                ck.violation('real lbzip2 failed: exit %d %r' % (p.returncode, p.stderr[-200:]), rpr)
                continue
            try:
                rplain, rinfos, rmeta = bzformat.strict_decode(p.stdout, want_info=True)
            except bzformat.Reject as e:
                ck.violation('real stream rejected by the strict parser: %s' % e, rpr)
                continue
            if rplain != d:
                ck.violation('real lbzip2 does not round-trip', rpr)
                continue
            badr = c02_rules(p.stdout, rinfos, rmeta, lv)
            if badr:
                ck.violation('real stream violates a C02 rule: ' + badr, rpr)
                continue
            dist['real'] += 1
            with_cases.append((tag, lv, sq, d, p.stdout, rinfos, rpr))
            if [block_key(x) for x in rinfos] != [block_key(x) for x in infos]:
                corr.append('per-block (crc, nblock, used, nsyms) of real lbzip2 and model differ on '
                            '%s level %d seq %d: real %r model %r'
                            % (tag, lv, sq, [block_key(x)[:2] + (block_key(x)[3],) for x in rinfos][:4],
                               [block_key(x)[:2] + (block_key(x)[3],) for x in infos][:4]))
                continue
            pos = 0
            for a, b in zip(rinfos, infos):
                blk = bzformat.rle1(d[pos:pos + a['plain_len']])
                pos += a['plain_len']
                if a['origptr'] != b['origptr']:
                    if periodic(blk):
                        dist['periodic'] += 1
                    else:
                        corr.append('origPtr of real lbzip2 (%d) and model (%d) differ on a '
                                    'non-periodic block of %s' % (a['origptr'], b['origptr'], tag))
        # ---- coverage
        nb = len(infos)
        dist['blocks1' if nb == 1 else 'empty' if nb == 0 else 'blocks2-5' if nb <= 5 else 'blocks6+'] += 1
        dist['seq'] += sq
        dist['mode1'] += md
        dist['levels'].add(lv)
        dist['sizes'].append(len(d))
        h = sha(lv, sq, cap, gr, md, d)
        if h not in seen and len(d) > 0:
            seen.add(h)
        if len(samples) < 8 and (nb >= 2 or i % 17 == 0):
            samples.append({'tag': tag, 'level': lv, 'seq': sq, 'cap': cap, 'granul': gr, 'mode': md,
                            'size': len(d), 'blocks': nb, 'stream_bytes': len(stream)})

    # ---- the real encoder's own choices fed into the model
    for tag, lv, sq, d in gen_medium(rng, quick):
        args = [lbz, '-%d' % lv, '-n', '1'] + (['-u'] if sq else [])
        p = subprocess.run(args, input=d, stdout=subprocess.PIPE, stderr=subprocess.PIPE, timeout=120)
        rpr = {'how': ' '.join(args[1:]) + ' < plaintext', 'level': lv, 'sequential': sq,
               'plaintext_hex': d.hex()[:20000], 'tag': tag}
        cov['evaluations'] += 1
        if p.returncode != 0 or p.stderr:
            ck.violation('real lbzip2 failed: exit %d %r' % (p.returncode, p.stderr[-200:]), rpr)
            continue
        try:
            rplain, rinfos, rmeta = bzformat.strict_decode(p.stdout, want_info=True)
        except bzformat.Reject as e:
            ck.violation('real stream rejected by the strict parser: %s' % e, rpr)
            continue
        if rplain != d or c02_rules(p.stdout, rinfos, rmeta, lv):
            ck.violation('real lbzip2 does not round-trip / violates a C02 rule (%s)' % tag, rpr)
            continue
        with_cases.append((tag, lv, sq, d, p.stdout, rinfos, rpr))
        seen.add(sha('medium', lv, sq, d))
    wlines = ['compresswith %d %d %d %d %s %s' % (lv, sq, lv * 100000, lv * 100000, hx(d),
                                                  choice_arg(d, rinfos))
              for _, lv, sq, d, _, rinfos, _ in with_cases]
    wrep, werr = drv_batch(drv, wlines)
    if werr:
        ck.broken.append('w23: driver failed on compresswith: ' + werr)
    else:
        ntab = {}
        for (tag, lv, sq, d, real_stream, rinfos, rpr), r in zip(with_cases, wrep):
            for inf in rinfos:
                ntab[len(inf['lens'])] = ntab.get(len(inf['lens']), 0) + 1
            if r is None or not r.startswith('ok '):
                # the contract fails on what the C code chose (or the driver could
                # not parse): the hypothesis of the theorems is not met by the code
                corr.append('ChoicesOK evaluated on the real encoder\'s choices: %r (%s, level %d, '
                            'seq %d, %d bytes)' % ((r or '')[:60], tag, lv, sq, len(d)))
            elif r[3:] != (real_stream.hex() or '-'):
                corr.append('model with the real encoder\'s choices does not reproduce the real '
                            'file (%s, level %d, seq %d, %d bytes): first difference at byte %d'
                            % (tag, lv, sq, len(d),
                               next((j for j, (a, b) in enumerate(zip(bytes.fromhex(r[3:]) if r[3:] != '-' else b'',
                                                                       real_stream)) if a != b), -1)))
        dist['real-choices-reproduced'] = len(with_cases)
        dist['real-tables-histogram'] = dict(sorted(ntab.items()))

    # ---- the real program on multi-block inputs (too large for the naive BWT of
    # the model's test choice function): header / blocks in order / combined CRC /
    # trailer of compress.c, judged by libbz2 and the strict parser, block list
    # against the packing rule and the CRC of each piece
    nbig = 2 if quick else 8
    for k in range(nbig):
        lv = 1 if k % 2 == 0 else 2
        n = lv * 100000 * 2 + rng.randint(1000, 60000)
        vals = rng.sample(range(256), rng.randint(2, 40))
        d = bytearray()
        while len(d) < n:
            d += bytes([rng.choice(vals)]) * rng.choice([1, 1, 1, 2, 3, 4, 5, 9, 300])
        d = bytes(d[:n])
        sq = k // 2 % 2 if not quick else k % 2
        args = [lbz, '-%d' % lv, '-n', str(rng.choice([1, 2, 4]))] + (['-u'] if sq else [])
        p = subprocess.run(args, input=d, stdout=subprocess.PIPE, stderr=subprocess.PIPE, timeout=300)
        rpr = {'how': ' '.join(args[1:]) + ' < plaintext', 'level': lv, 'sequential': sq,
               'plaintext_sha1': hashlib.sha1(d).hexdigest(), 'size': len(d),
               'generator': 'w23 big case %d, VERIF_SEED=%d' % (k, ck.seed)}
        cov['evaluations'] += 1
        if p.returncode != 0 or p.stderr:
            ck.violation('real lbzip2 failed: exit %d %r' % (p.returncode, p.stderr[-200:]), rpr)
            continue
        try:
            ok = bz2.decompress(p.stdout) == d
        except Exception:            # noqa: BLE001
            ok = False
        if not ok:
            ck.violation('real lbzip2 multi-block stream not decoded to the input by libbz2', rpr)
            continue
        try:
            _, rinfos, rmeta = bzformat.strict_decode(p.stdout, want_info=True, full=False)
        except bzformat.Reject as e:
            ck.violation('real multi-block stream rejected by the strict parser: %s' % e, rpr)
            continue
        badr = c02_rules(p.stdout, rinfos, rmeta, lv)
        if badr:
            ck.violation('real multi-block stream violates a C02 rule: ' + badr, rpr)
            continue
        cut = bzformat.pack_blocks(d, lv * 100000, None if sq else lv * 100000)
        want, pos = [], 0
        for c in cut:
            want.append((bzformat.bzcrc(d[pos:pos + c]), len(bzformat.rle1(d[pos:pos + c]))))
            pos += c
        if [(x['crc'], x['nblock']) for x in rinfos] != want:
            ck.violation('real multi-block stream: per-block (crc, nblock) differ from the packing '
                         'rule: %r vs %r' % ([(x['crc'], x['nblock']) for x in rinfos][:4], want[:4]), rpr)
            continue
        dist['real-multiblock'] = dist.get('real-multiblock', 0) + 1

    # ---- the Lean oracle on the model's streams (the statement of the theorems,
    # evaluated): decode = input, inspect accepts with one stream
    orep, oerr = drv_batch(drv, oracle_lines)
    if oerr:
        ck.broken.append('w23: driver failed on decode/inspect: ' + oerr)
    else:
        for k, i in enumerate(oracle_idx):
            d = cases[i][6]
            if orep[2 * k] != 'ok ' + hx(d):
                ck.violation('Spec.decodeFile does not return the input on the model stream (%s): %s'
                             % (cases[i][0], (orep[2 * k] or '')[:80]),
                             {'how': 'lbzdrv: ' + lines[i][:4000] + ' ; then decode <stream>'},
                             no_input=True)
            ins = orep[2 * k + 1] or ''
            if not ins.startswith('ok ') or ins.count('"level":') != 1:
                ck.violation('Spec.inspect does not accept the model stream (%s): %s'
                             % (cases[i][0], ins[:80]),
                             {'how': 'lbzdrv: ' + lines[i][:4000] + ' ; then inspect <stream>'},
                             no_input=True)
    for w in corr[:12]:
        ck.log('correspondence: ' + w[:600])
        ck.broken.append('correspondence: w23 ' + w[:300])
    cov['distinct_nontrivial'] = len(seen)
    cov['rule'] = 'distinct (level, seq, cap, granul, mode, input) with non-empty input'
    cov['oracle_cases'] = len(oracle_idx)
    dist['levels'] = sorted(dist['levels'])
    sz = dist.pop('sizes')
    dist['size_min_med_max'] = [min(sz), sorted(sz)[len(sz) // 2], max(sz)] if sz else []
    cov['distribution'] = dist
    cov['samples'] = samples
    cov['seconds'] = round(time.time() - t0, 1)
    ck.log('w23: %d cases, %d distinct non-trivial, %s, %.1fs'
           % (cov['evaluations'], cov['distinct_nontrivial'], dist, cov['seconds']))
    return cov


if __name__ == '__main__':
    from vlib import Check
    ck = Check('C01')
    cov = run(ck)
    print(cov)
    print('violations:', len(ck.violations), 'broken:', ck.broken)
    for v in ck.violations[:5]:
        print(str(v)[:600])
    sys.exit(1 if ck.violations or ck.broken else 0)
