#!/usr/bin/env python3
"""C08 — no undefined behaviour for any input.

Theorems: Props/C08/*.lean — index arithmetic inside the declared extents
(sliding-list rows inside imtf_slide, shift ≤ 19, fast path fetches ≤ 32
words, tt list-construction stores inside tt[0,n), selector bound), extents
and limits from the regenerated Gen.  Tie: the in-process harnesses of the
work packages and the WHOLE program built with ASan+UBSan, asserts on, run
over the compression campaign, the valid+malformed decode campaign and the
planted-magic streams under small granularities; a sanitizer report or
assertion failure is a violation with the input as replay."""
import os
import re
import sys
sys.path.insert(0, os.path.join(os.path.dirname(os.path.abspath(__file__)),
                                '..', 'tools'))
sys.path.insert(0, os.path.dirname(os.path.abspath(__file__)))
from vlib import Check  # noqa: E402
import camp_encode as E  # noqa: E402
import camp_sched as S  # noqa: E402
import decode_run as D  # noqa: E402
import inproc  # noqa: E402
import proc  # noqa: E402

ck = Check('C08')
ck.regen()
mods = ck.props_modules()
if mods:
    ck.lean(mods)
    ck.require_theorems([
        'LbzVerif.Props.C08.Slide.slide_bounds',
        'LbzVerif.Props.C08.Slide.shift_bound',
        'LbzVerif.Props.C08.fastpath_refills',
        'LbzVerif.Props.C08.selectors_enough',
    ])
inproc.run_libs(ck, ['w10_mtf', 'w11_prefix', 'w12_emit', 'w15_retrieve'])
exe = ck.build_lbzip2('lbzip2-asan', asan=True, ndebug=False)
rng = ck.rng
evals = nontriv = 0
samples = []
hist = {}
SAN = re.compile(rb'ERROR: AddressSanitizer|runtime error:|Assertion .* failed|'
                 rb'VERIF-ASSERT failed|LeakSanitizer')


def judge(r, what, replay):
    global evals
    evals += 1
    bad = SAN.search(r.err) or r.sig is not None or r.timeout
    if bad:
        sig = None
        m = re.search(rb'VERIF-ASSERT failed: ([^\n]*)', r.err)
        if m:
            sig = 'verif-assert:' + m.group(1).decode('latin1')
        m = re.search(rb"Assertion `([^']*)' failed", r.err)
        if m:
            sig = 'assert:' + m.group(1).decode('latin1')
        ck.violation('sanitizer/assertion report in %s: %s ... %s' %
                     (what, r.code(), r.err[-300:].decode('latin1')),
                     replay, signature=sig)
    return not bad


if exe:
    env0 = {'ASAN_OPTIONS': 'detect_leaks=0:abort_on_error=0',
            'UBSAN_OPTIONS': 'print_stacktrace=1', 'LBZIP2_VERIF_CHECK': '1'}
    # compression side
    I = E.inputs(rng, ck.quick)
    if ck.quick:
        I = [x for x in I if len(x[1]) <= 120000 or x[0] in
             ('random-300k', 'long-run', 'runs-of-4')]
    jobs = []
    meta = []
    for name, data, tag in I:
        lvl = rng.choice([1, 1, 2, 9])
        seq = rng.random() < 0.5
        n = rng.choice([1, 2, 4])
        env = dict(env0)
        if rng.random() < 0.5:
            env['LBZIP2_VERIF_PERTURB'] = str(rng.randrange(1, 10**6))
        jobs.append(dict(exe=exe, args=['-%d' % lvl, '-n%d' % n] +
                         (['-u'] if seq else []), data=data, env=env,
                         timeout=600))
        meta.append(('compress', name, data, lvl, seq, n, env))
    res = proc.run_many(jobs, workers=12)
    comp = []
    for m, r in zip(meta, res):
        hist['compress'] = hist.get('compress', 0) + 1
        _, name, data, lvl, seq, n, env = m
        if judge(r, 'compression of %s' % name,
                 {'input_family': name, 'level': lvl, 'seq': seq, 'n': n,
                  'input_hex': data.hex() if len(data) < 70000 else None}):
            if r.code() == 'exit0':
                comp.append((name, r.out, data))
                nontriv += 1
    # decompression of what was just produced, tiny granularities included
    jobs = []
    meta = []
    for name, c, data in comp:
        env = dict(env0)
        env.update(S.config_env(rng, big=len(data) > 20000))
        n = rng.choice([1, 2, 3, 4])
        jobs.append(dict(exe=exe, args=['-d', '-n%d' % n], data=c, env=env,
                         timeout=600))
        meta.append((name, c, data, n, env))
    # the structured valid / malformed streams
    cases, _ = D.build_cases(ck)
    cases = [c for c in cases if len(c.data) < 20000 and
             (c.expect is None or len(c.expect) < 300000)]
    if ck.quick:
        rng.shuffle(cases)
        cases = [c for c in cases if c.tag == 'worst-case-groups'] + \
            [c for c in cases if c.tag != 'worst-case-groups'][:300]
    for c in cases:
        env = dict(env0)
        env.update(S.config_env(rng))
        n = rng.choice([1, 2, 3, 4])
        jobs.append(dict(exe=exe, args=['-d', '-n%d' % n], data=c.data,
                         env=env, timeout=300))
        meta.append((c.name, c.data, c.expect, n, env))
    # worst-case groups at every alignment against input buffers of 31..33
    # and 63..65 words (the fast path's 32-word look-ahead)
    for c in cases:
        if c.tag == 'worst-case-groups':
            for ig in (124, 128, 132, 252, 256, 260):
                env = dict(env0)
                env['LBZIP2_VERIF_IN_GRANUL'] = str(ig)
                jobs.append(dict(exe=exe, args=['-d', '-n2'], data=c.data,
                                 env=env, timeout=300))
                meta.append((c.name, c.data, c.expect, 2, env))
    for name, data, plain, tag in S.planted_streams(rng, ck.quick):
        for _ in range(3 if ck.quick else 12):
            env = dict(env0)
            env.update(S.config_env(rng))
            n = rng.choice([2, 3, 4, 8])
            jobs.append(dict(exe=exe, args=['-d', '-n%d' % n], data=data,
                             env=env, timeout=300))
            meta.append((name, data, plain, n, env))
    res = proc.run_many(jobs, workers=12)
    for (name, stream, expect, n, env), r in zip(meta, res):
        hist['decompress'] = hist.get('decompress', 0) + 1
        e2 = {k: v for k, v in env.items() if k.startswith('LBZIP2')}
        ok = judge(r, 'decompression of %s' % name,
                   {'stream_hex': stream[:300000].hex(), 'case': name, 'n': n,
                    'env': e2})
        if ok and expect is not None and r.out != expect:
            ck.violation('ASan build decoded %s to different bytes' % name,
                         {'stream_hex': stream[:300000].hex(), 'env': e2})
        elif ok:
            nontriv += 1
        if len(samples) < 6 and evals % 53 == 0:
            samples.append({'case': name, 'n': n, 'env': e2,
                            'result': r.code(), 'bytes': len(stream)})
ck.log('runs:', hist)
ck.finish({
    'evaluations': evals, 'distinct_nontrivial': nontriv,
    'rule': 'whole program under ASan+UBSan with asserts and hook assertions '
            'on: compression inputs (incl. sort adversaries), decompression '
            'of those outputs and of the structured valid/malformed/planted '
            'streams under random granularities 4..262144 / 1..900000, slot '
            'counts, worker counts, seeds; non-trivial = completed without '
            'any report',
    'samples': samples, 'run_histogram': hist,
    'inproc_libraries': [n for n, _ in getattr(ck, 'inproc', [])],
    'exhaustive': False,
}, ['no verified C semantics: memory safety is observed under sanitizers; '
    'divbwt.c covered by adversarial sort inputs only; uninitialised reads '
    'need valgrind (thorough tier of C13/C08 libraries)'])
