#!/usr/bin/env python3
"""C19 — `-cdf` passes non-bzip2 data through unchanged.

Theorems: LbzVerif.Props.C19 (sniff_iff, copy_identity, copy_terminates,
usr2_once, header_case, ...) over Model.Copy, whose constants are regenerated
from src/process.c on every run.

Campaign on the real program (hooks compiled in, no sanitizer):
  * `-cdf` on inputs of the boundary sizes (0..8, around 64 KiB / 128 KiB with
    and without the 4 sniffed bytes, 1 MiB), random / zero / text contents,
    prefixes of the magic, wrong digits; from a regular file on stdin, as a
    FILE operand, from a pipe fed in random fragments with small sleeps, with a
    slow reader on stdout; with and without LBZIP2_VERIF_PERTURB; each under a
    timeout.  Required: stdout == input, status 0, stderr empty.
  * inputs that DO start with BZh1..BZh9 (valid, corrupted, truncated, bare
    header): `-cdf` must give exactly the stdout/status/stderr of `-cd`.
  * decision grid force x {stdout, file, test} against Model.Copy.sniff
    through the driver.
  * LBZIP2_VERIF_TRACE of copy runs: the scheduler-lock sections (which thread,
    eof flip) are replayed on the model's counters (`copyacct`); the out_slots
    values must agree event by event and the number of sections in which
    copy_terminate's condition held (= SIGUSR2 raised) must be exactly 1.
  * the model itself is run (`copyrun`) on the small/medium inputs under
    random schedules and must produce the same bytes and one SIGUSR2.
"""
import bz2
import hashlib
import os
import pty
import shutil
import subprocess
import sys
import threading
import time
import tty
from concurrent.futures import ThreadPoolExecutor

sys.path.insert(0, os.path.join(os.path.dirname(os.path.abspath(__file__)),
                                '..', 'tools'))
from vlib import Check, batch  # noqa: E402

ck = Check('C19')
ck.regen()
ck.lean(['LbzVerif.Props.C19'])
ck.require_theorems(['LbzVerif.Props.C19.' + n for n in (
    'xread_spec', 'sniff_iff', 'sniff_frag_irrelevant', 'copy_identity',
    'copy_terminates', 'copy_progress', 'usr2_once', 'usr2_never_twice',
    'usr2_after_output', 'header_case')])
exe = ck.build_lbzip2(asan=False)
drv = ck.driver()


def private_driver(drv):
    """Other work packages may relink the shared driver while this campaign
    runs: take a copy now and make sure it knows this package's commands."""
    for attempt in range(4):
        cp = os.path.join(ck.tmp, 'lbzdrv-' + str(attempt))
        try:
            shutil.copy2(drv, cp)
            rc, rep, _ = batch([cp], ['sniff 425a6839 1 1'], timeout=60)
            if rc == 0 and rep == ['decompress 9']:
                return cp
        except (OSError, subprocess.SubprocessError):
            pass
        time.sleep(5)
        if 'LBZDRV' not in os.environ:
            ck._lake(['build', 'lbzdrv'])
    ck.broken.append('driver: lbzdrv does not answer ' + 'sniff 425a6839 1 1')
    return drv


drv = private_driver(drv)
TIMEOUT = 30
rng = ck.rng
GRANUL = 65536


def rbytes(n):
    return rng.getrandbits(8 * n).to_bytes(n, 'little') if n else b''


# ------------------------------------------------------------------ running
def run_real(args, data=None, path=None, mode='file', env_extra=None,
             frags=None, slow=False):
    """mode: 'file' (regular file on stdin), 'operand' (FILE operand),
    'pipe' (fragments with sleeps).  Returns (status, stdout, stderr) with
    status 'timeout' on a hang."""
    env = dict(os.environ)
    for k in list(env):
        if k.startswith('LBZIP2') or k in ('BZIP2', 'BZIP'):
            del env[k]
    env.update(env_extra or {})
    argv = [exe] + list(args)
    if mode == 'operand':
        argv.append(path)
        stdin = subprocess.DEVNULL
    elif mode == 'file':
        stdin = open(path, 'rb')
    else:
        stdin = subprocess.PIPE
    p = subprocess.Popen(argv, stdin=stdin, stdout=subprocess.PIPE,
                         stderr=subprocess.PIPE, env=env)
    if mode == 'file':
        stdin.close()
    out_chunks, err_chunks = [], []

    def feed():
        try:
            pos = 0
            for f, slp in frags:
                p.stdin.write(data[pos:pos + f])
                p.stdin.flush()
                pos += f
                if slp:
                    time.sleep(slp)
            if pos < len(data):
                p.stdin.write(data[pos:])
        except (BrokenPipeError, OSError):
            pass
        finally:
            try:
                p.stdin.close()
            except OSError:
                pass

    def drain_out():
        fd = p.stdout.fileno()
        while True:
            b = os.read(fd, 4096 if slow else 1 << 20)
            if not b:
                break
            out_chunks.append(b)
            if slow and len(out_chunks) % 8 == 0:
                time.sleep(0.0005)

    def drain_err():
        err_chunks.append(p.stderr.read())

    ths = [threading.Thread(target=drain_out), threading.Thread(target=drain_err)]
    if mode == 'pipe':
        ths.append(threading.Thread(target=feed))
    for t in ths:
        t.start()
    try:
        st = p.wait(timeout=TIMEOUT)
    except subprocess.TimeoutExpired:
        p.kill()
        p.wait()
        st = 'timeout'
    for t in ths:
        t.join()
    p.stdout.close()
    p.stderr.close()
    return st, b''.join(out_chunks), b''.join(err_chunks)


def mkfrags(n):
    """Random fragmentation of n bytes: list of (size, sleep)."""
    style = rng.randrange(4)
    fr, pos = [], 0
    while pos < n and len(fr) < (120 if ck.quick else 400):
        if style == 0:
            f = rng.choice([1, 1, 2, 3, 4, 5])
        elif style == 1:
            f = rng.randrange(1, 70000)
        elif style == 2:
            f = rng.choice([1, 3, 4, 65535, 65536, 65537, 4096])
        else:
            f = rng.randrange(1, 2000)
        f = min(f, n - pos)
        fr.append((f, rng.choice([0, 0, 0.0002, 0.001])))
        pos += f
    return fr


# -------------------------------------------------------------------- inputs
def is_magic(d):
    return len(d) >= 4 and d[:3] == b'BZh' and 0x31 <= d[3] <= 0x39


sizes_small = list(range(0, 9))
edge = [GRANUL - 1, GRANUL, GRANUL + 1, GRANUL + 3, GRANUL + 4, GRANUL + 5,
        2 * GRANUL - 1, 2 * GRANUL, 2 * GRANUL + 1, 2 * GRANUL + 3,
        2 * GRANUL + 4, 2 * GRANUL + 5, 3 * GRANUL + 4, 1 << 20, (1 << 20) + 4]
inputs = []        # (tag, bytes)


def content(kind, n):
    if kind == 'rand':
        return rbytes(n)
    if kind == 'zero':
        return bytes(n)
    if kind == 'text':
        line = b'the quick brown fox %d\n'
        s = b''.join(line % i for i in range(n // 20 + 2))
        return s[:n]
    raise ValueError(kind)


for n in sizes_small:
    for kind in ('rand', 'zero'):
        inputs.append(('%s%d' % (kind, n), content(kind, n)))
for n in edge:
    kinds = ['rand'] if ck.quick and n > 3 * GRANUL else ['rand', 'zero', 'text']
    for kind in kinds:
        inputs.append(('%s%d' % (kind, n), content(kind, n)))
# near misses of the magic, alone and followed by data of boundary length
for pre in (b'B', b'BZ', b'BZh', b'BZh0', b'BZh:', b'BZH1', b'bZh1', b'AZh9',
            b'BZi5', b'BYh5', b'\x00BZh9', b'BZh\x00', b'BZh/', b'BZh\xb1'):
    inputs.append(('pre:' + pre.hex(), pre))
    for extra in (1, 4, GRANUL - len(pre), GRANUL + 4 - len(pre),
                  rng.randrange(5, 3000)):
        if ck.quick and extra > 60000 and pre not in (b'B', b'BZ', b'BZh', b'BZh0', b'BZh:'):
            continue
        if extra > 0:
            inputs.append(('pre:%s+%d' % (pre.hex(), extra), pre + rbytes(extra)))
# a compressed file with a damaged magic is copied, not decompressed
good = bz2.compress(b'hello, world\n' * 50, 9)
inputs.append(('bz2-badmagic', b'BZh0' + good[4:]))
inputs.append(('bz2-shifted', b'\n' + good))
nrand = 12 if ck.quick else 150
for i in range(nrand):
    n = rng.choice([rng.randrange(0, 40), rng.randrange(0, 5000),
                    rng.randrange(GRANUL - 10, GRANUL + 10),
                    rng.randrange(0, 400000)])
    inputs.append(('r%d' % i, rbytes(n)))
inputs = [(t, d) for t, d in inputs if not is_magic(d)]

# inputs with a real header
hdr_inputs = []
for lvl in (1, 5, 9):
    plain = content('text', rng.randrange(1, 3000))
    z = bz2.compress(plain, lvl)
    hdr_inputs.append(('valid%d' % lvl, z))
    hdr_inputs.append(('valid%d+valid' % lvl, z + bz2.compress(b'second', lvl)))
    hdr_inputs.append(('valid%d+trail' % lvl, z + b'\x00garbage'))
    for _ in range(3 if ck.quick else 12):
        zz = bytearray(z)
        k = rng.randrange(4, len(zz))
        zz[k] ^= 1 << rng.randrange(8)
        hdr_inputs.append(('flip%d@%d' % (lvl, k), bytes(zz)))
    hdr_inputs.append(('trunc%d' % lvl, z[:rng.randrange(4, len(z))]))
    hdr_inputs.append(('bare%d' % lvl, b'BZh%d' % lvl))
    hdr_inputs.append(('hdr%d+rand' % lvl, b'BZh%d' % lvl + rbytes(rng.randrange(1, 200))))
hdr_inputs.append(('empty-stream', bz2.compress(b'', 9)))
hdr_inputs.append(('big', bz2.compress(content('text', 300000), 1)))

paths = {}
for i, (tag, d) in enumerate(inputs + hdr_inputs):
    p = os.path.join(ck.tmp, 'in%04d' % i)
    with open(p, 'wb') as f:
        f.write(d)
    paths[tag] = p

# ------------------------------------------------------------------ campaign
evaluations = 0
distinct = set()
samples = []
dist = {'mode': {}, 'size_class': {}, 'perturb': 0, 'trace_runs': 0,
        'max_outstanding_seen': 0, 'wrap_seen': 0, 'raise_at_eof': 0,
        'raise_at_inc': 0}
lock = threading.Lock()


def size_class(n):
    if n < 4:
        return '0-3'
    if n < GRANUL + 4:
        return '<1chunk'
    if n < 2 * GRANUL + 4:
        return '<2chunks'
    return '>=2chunks'


def parse_trace(text):
    ev = []
    for line in text.splitlines():
        w = line.split()
        if not w or w[0] != 'U':
            continue
        kv = dict(x.split('=', 1) for x in w[1:] if '=' in x)
        ev.append((int(kv['t']), int(kv['os']), int(kv['eof'])))
    return ev


class TraceTty:
    """The hook's trace stream is a buffered FILE that copy mode never flushes
    (the process leaves through _exit).  Handing it a pseudo-terminal makes
    stdio line-buffer it, so every scheduler section arrives."""

    def __init__(self):
        self.m, self.s = pty.openpty()
        tty.setraw(self.s)
        self.path = os.ttyname(self.s)
        self.buf = []
        self.t = threading.Thread(target=self._drain)
        self.t.start()

    def _drain(self):
        while True:
            try:
                b = os.read(self.m, 65536)
            except OSError:
                break
            if not b:
                break
            self.buf.append(b)

    def finish(self):
        os.close(self.s)
        self.t.join()
        os.close(self.m)
        return b''.join(self.buf).decode('ascii', 'replace')


def label_events(ev):
    """d/e/i labels from thread identity and the eof flip only."""
    flip = None
    for i, (t, os_, eof) in enumerate(ev):
        if eof == 1:
            flip = i
            break
    if flip is None:
        return None
    src = ev[flip][0]
    lab = []
    for i, (t, os_, eof) in enumerate(ev):
        if i == flip:
            lab.append('e')
        elif t == src:
            lab.append('d')
        else:
            lab.append('i')
    return lab


trace_jobs = []    # (tag, labels, os list, raises) checked against the driver


def one_copy_case(job):
    tag, d, mode, perturb, slow, trace, frags = job
    env = {}
    if perturb is not None:
        env['LBZIP2_VERIF_PERTURB'] = str(perturb)
    tt = None
    if trace:
        tt = TraceTty()
        env['LBZIP2_VERIF_TRACE'] = tt.path
    st, out, err = run_real(['-cdf'], data=d, path=paths[tag], mode=mode,
                            env_extra=env, frags=frags, slow=slow)
    res = {'tag': tag, 'len': len(d), 'mode': mode, 'perturb': perturb,
           'slow': slow, 'status': st}
    bad = None
    if st == 'timeout':
        bad = 'hang (no exit within %ds)' % TIMEOUT
    elif st != 0:
        bad = 'exit status %r, stderr %r' % (st, err[:200])
    elif out != d:
        k = next((i for i in range(min(len(out), len(d))) if out[i] != d[i]),
                 min(len(out), len(d)))
        bad = 'output differs from input at byte %d (in %d bytes, out %d bytes)' % (
            k, len(d), len(out))
    elif err != b'':
        bad = 'stderr not empty: %r' % err[:200]
    tr = None
    ttext = tt.finish() if tt else ''
    if trace and st != 'timeout':
        ev = parse_trace(ttext)
        raises = sum(1 for (_, os_, eof) in ev if eof == 1 and os_ == 2)
        n = max(0, len(d) - 4) if len(d) >= 4 else 0
        chunks = (n + GRANUL - 1) // GRANUL
        lab = label_events(ev)
        tr = (ev, lab, raises, chunks)
        if raises != 1 and bad is None:
            bad = ('copy_terminate condition held in %d scheduler sections '
                   '(SIGUSR2 raised %d times)' % (raises, raises))
        elif len(ev) != 2 * chunks + 1 and bad is None:
            bad = 'trace has %d scheduler sections, expected %d' % (
                len(ev), 2 * chunks + 1)
    return job, res, bad, tr, frags


jobs = []
pseeds = [ck.seed * 100 + k for k in range(1 if ck.quick else 6)]
for tag, d in inputs:
    big = len(d) > 3 * GRANUL
    for mode in ('file', 'operand', 'pipe'):
        fr = (lambda: mkfrags(len(d)) if mode == 'pipe' else None)
        jobs.append((tag, d, mode, None, False, mode != 'operand', fr()))
        for ps in (pseeds[:1] if (ck.quick and big) else pseeds):
            jobs.append((tag, d, mode, ps, False, True, fr()))
    jobs.append((tag, d, 'pipe', pseeds[0], True, True, mkfrags(len(d))))
    if not ck.quick:
        jobs.append((tag, d, 'file', None, True, False, None))
ck.log('%d copy inputs, %d header inputs, %d copy runs' % (
    len(inputs), len(hdr_inputs), len(jobs)))

with ThreadPoolExecutor(max_workers=12) as ex:
    for job, res, bad, tr, frags in ex.map(one_copy_case, jobs):
        tag, d, mode, perturb, slow, trace, _fr = job
        evaluations += 1
        dist['mode'][mode] = dist['mode'].get(mode, 0) + 1
        sc = size_class(len(d))
        dist['size_class'][sc] = dist['size_class'].get(sc, 0) + 1
        if perturb is not None:
            dist['perturb'] += 1
        distinct.add(hashlib.sha1(d).hexdigest() + mode + str(perturb) + str(slow))
        if tr is not None:
            ev, lab, raises, chunks = tr
            dist['trace_runs'] += 1
            for (_, os_, eof) in ev:
                if os_ > 2:
                    dist['wrap_seen'] += 1
            if ev:
                worst = max((2 - os_) % (1 << 32) for (_, os_, _e) in ev)
                dist['max_outstanding_seen'] = max(dist['max_outstanding_seen'], worst)
            if lab is not None:
                k = next((i for i, (_, os_, eof) in enumerate(ev)
                          if eof == 1 and os_ == 2), None)
                if k is not None:
                    dist['raise_at_eof' if lab[k] == 'e' else 'raise_at_inc'] += 1
                trace_jobs.append((res, lab, [os_ for (_, os_, _e) in ev], raises))
        if bad:
            rp = os.path.join(ck.tmp, 'fail-%d.bin' % evaluations)
            ck.violation('-cdf on non-bzip2 input: ' + bad, {
                'argv': ['lbzip2', '-cdf'], 'input_hex': d[:64].hex(),
                'input_len': len(d), 'input_sha1': hashlib.sha1(d).hexdigest(),
                'input_tag': tag, 'mode': mode, 'perturb_seed': perturb,
                'slow_reader': slow,
                'fragments': frags[:50] if frags else None,
                'how': 'VERIF_SEED=%d ./check C19 regenerates the input from the tag' % ck.seed})
        elif len(samples) < 8 and rng.random() < 0.02:
            samples.append(res)

# ---- trace replay on the model's counters
if trace_jobs:
    lines = ['copyacct ' + ','.join(lab) for (_, lab, _, _) in trace_jobs]
    rc, replies, err = batch([drv], lines)
    if rc != 0 or len(replies) != len(lines):
        ck.broken.append('correspondence: driver failed on copyacct (%s)' % err[:200])
    else:
        for (res, lab, oss, raises), rep in zip(trace_jobs, replies):
            evaluations += 1
            want = '%s %d' % (','.join(map(str, oss)), raises)
            if rep != want:
                ck.log('trace/model mismatch', res, lab, rep, want)
                ck.broken.append('correspondence: out_slots accounting of the '
                                 'real trace differs from Model.Copy (%s)' % res['tag'])
                break

# ---- the model run on the same inputs (small and medium)
mlines, mexp = [], []
for tag, d in inputs:
    if len(d) > 3 * GRANUL:
        continue
    for _ in range(2):
        frag = ','.join(str(rng.choice([1, 2, 3, 4, 100, 70000]))
                        for _ in range(rng.randrange(0, 6))) or '-'
        sched = ','.join('%d:%d' % (rng.randrange(9), rng.choice(
            [1, 7, 4096, 65535, 65536, 100000])) for _ in range(rng.randrange(0, 60))) or '-'
        mlines.append('copyrun %s %s %s %d' % (d.hex() or '-', frag, sched, 1000000))
        mexp.append((tag, d))
rc, replies, err = batch([drv], mlines, timeout=1200)
if rc != 0 or len(replies) != len(mlines):
    ck.broken.append('correspondence: driver failed on copyrun (%s)' % err[:200])
else:
    for (tag, d), rep in zip(mexp, replies):
        evaluations += 1
        if rep != '%s 1 1' % (d.hex() or '-'):
            ck.log('model run differs from the real program on', tag, rep[:80])
            ck.broken.append('correspondence: Model.Copy.runCopy does not '
                             'reproduce the copy (%s)' % tag)
            break

# ---- inputs with a header: -cdf must be exactly -cd
def same_run(a, b):
    """Equality of two runs of the decompressor.  When the stream is rejected
    (status 1) the wording of the one-line message and the amount of output
    already written depend on how far the worker threads got, also between two
    runs of the very same command; then only the status, the presence of one
    diagnostic (not the sniff's "not a valid bzip2 file") and prefix-related
    outputs are required."""
    if a[0] != b[0]:
        return False
    if a[0] == 1:
        for r in (a, b):
            if r[2].count(b'\n') != 1 or b'not a valid bzip2 file' in r[2]:
                return False
        return a[1].startswith(b[1]) or b[1].startswith(a[1])
    return a == b


for tag, d in hdr_inputs:
    for mode in ('file', 'pipe', 'operand'):
        for ps in [None] + pseeds[:1]:
            env = {} if ps is None else {'LBZIP2_VERIF_PERTURB': str(ps)}
            fr = mkfrags(len(d)) if mode == 'pipe' else None
            a = run_real(['-cdf'], data=d, path=paths[tag], mode=mode,
                         env_extra=env, frags=fr)
            b = run_real(['-cd'], data=d, path=paths[tag], mode=mode,
                         env_extra=env, frags=fr)
            evaluations += 1
            distinct.add(hashlib.sha1(d).hexdigest() + 'hdr' + mode + str(ps))
            dist['mode']['hdr-' + mode] = dist['mode'].get('hdr-' + mode, 0) + 1
            if not same_run(a, b):
                ck.violation(
                    'input with a stream header: -cdf and -cd differ '
                    '(status %r vs %r, %d vs %d output bytes, stderr %r vs %r)' % (
                        a[0], b[0], len(a[1]), len(b[1]), a[2][:120], b[2][:120]),
                    {'argv': ['lbzip2', '-cdf'], 'input_hex': d.hex()[:4000],
                     'input_len': len(d), 'input_tag': tag, 'mode': mode,
                     'perturb_seed': ps})
            elif tag.startswith('valid') and mode == 'file' and ps is None:
                # sanity of the oracle side: plain -d of a valid file works
                try:
                    want = bz2.decompress(d) if '+trail' not in tag else None
                except Exception:
                    want = None
                if want is not None and (a[0] != 0 or a[1] != want):
                    ck.violation('valid stream not decompressed by -cdf', {
                        'argv': ['lbzip2', '-cdf'], 'input_hex': d.hex(),
                        'input_tag': tag})

# ---- several operands in one invocation: a non-bzip2 operand is passed
# through unchanged wherever it stands (state left by an earlier operand --
# a decompressed one in particular -- must not leak into the copy)
valid_ops = [(t, d) for t, d in hdr_inputs
             if t.startswith('valid') and '+trail' not in t] + \
            [(t, d) for t, d in hdr_inputs if t == 'empty-stream']
copy_ops = [(t, d) for t, d in inputs if len(d) <= 3 * GRANUL]
n_multi = 40 if ck.quick else 400
for k in range(n_multi):
    ops = []
    for _ in range(rng.randrange(2, 5)):
        ops.append(rng.choice(valid_ops) if rng.random() < 0.45
                   else rng.choice(copy_ops))
    if k < 6:        # the shortest shapes first
        ops = [[valid_ops[0], copy_ops[k]], [copy_ops[k], valid_ops[0], copy_ops[-1 - k]],
               [valid_ops[-1], copy_ops[k]]][k % 3]
    want = b''
    for t, d in ops:
        want += bz2.decompress(d) if (t, d) in valid_ops else d
    nw = rng.choice([1, 2, 3, 4])
    ps = rng.choice([None] + pseeds)
    env = dict(os.environ)
    for kk in list(env):
        if kk.startswith('LBZIP2') or kk in ('BZIP2', 'BZIP'):
            del env[kk]
    if ps is not None:
        env['LBZIP2_VERIF_PERTURB'] = str(ps)
    argv = [exe, '-cdf', '-n%d' % nw] + [paths[t] for t, _ in ops]
    try:
        r = subprocess.run(argv, stdin=subprocess.DEVNULL, capture_output=True,
                           env=env, timeout=TIMEOUT)
        st, out, err_ = r.returncode, r.stdout, r.stderr
    except subprocess.TimeoutExpired:
        st, out, err_ = 'timeout', b'', b''
    evaluations += 1
    distinct.add('multi' + ','.join(t for t, _ in ops) + str(nw) + str(ps))
    dist['mode']['multi-operand'] = dist['mode'].get('multi-operand', 0) + 1
    if st != 0 or out != want or err_ != b'':
        kb = next((i for i in range(min(len(out), len(want))) if out[i] != want[i]),
                  min(len(out), len(want)))
        ck.violation(
            '-cdf with several operands %s: status %r, output %d bytes (expected '
            '%d), first difference at byte %d, stderr %r' % (
                [t for t, _ in ops], st, len(out), len(want), kb, err_[:160]),
            {'argv': ['lbzip2', '-cdf', '-n%d' % nw] + ['<%s>' % t for t, _ in ops],
             'operands': [{'tag': t, 'len': len(d), 'hex': d.hex()[:2000],
                           'sha1': hashlib.sha1(d).hexdigest()} for t, d in ops],
             'perturb_seed': ps,
             'how': 'VERIF_SEED=%d ./check C19 regenerates the operands from '
                    'the tags' % ck.seed})

# ---- decision grid against Model.Copy.sniff
grid_inputs = [d for _, d in inputs if len(d) <= 12][:60] + \
              [d for _, d in hdr_inputs if len(d) <= 400][:12]
glines, gobs = [], []
for d in grid_inputs:
    for force in (0, 1):
        for outm in ('stdout', 'file', 'test'):
            work = os.path.join(ck.tmp, 'grid')
            os.makedirs(work, exist_ok=True)
            ip = os.path.join(work, 'x.bz2')
            with open(ip, 'wb') as f:
                f.write(d)
            op = os.path.join(work, 'x')
            if os.path.exists(op):
                os.unlink(op)
            args = ['-d'] + (['-f'] if force else []) + \
                   {'stdout': ['-c'], 'file': ['-k'], 'test': ['-t']}[outm]
            st, out, err = run_real(args, path=ip, mode='operand')
            if outm == 'file' and os.path.exists(op):
                with open(op, 'rb') as f:
                    out = f.read()
                produced = True
            else:
                produced = outm != 'file'
            frag = ','.join(str(rng.randrange(1, 5)) for _ in range(rng.randrange(0, 4))) or '-'
            glines.append('sniff %s %d %d %s' % (d[:8].hex() or '-', force,
                                                1 if outm == 'stdout' else 0, frag))
            gobs.append((d, force, outm, st, out, err, produced))
rc, replies, err = batch([drv], glines)
if rc != 0 or len(replies) != len(glines):
    ck.broken.append('correspondence: driver failed on sniff (%s)' % err[:200])
else:
    ndec = {'copy': 0, 'fail': 0, 'decompress': 0}
    for (d, force, outm, st, out, err_, produced), rep in zip(gobs, replies):
        evaluations += 1
        kind = rep.split()[0]
        ndec[kind] = ndec.get(kind, 0) + 1
        ok = True
        if kind == 'copy':
            ok = (st == 0 and out == d and err_ == b'' and
                  rep == 'copy ' + (d[:4].hex() or '-'))
        elif kind == 'fail':
            ok = (st == 1 and b'not a valid bzip2 file' in err_ and
                  (out == b'' or not produced))
        elif kind == 'decompress':
            ok = (b'not a valid bzip2 file' not in err_ and
                  rep == 'decompress %d' % (d[3] - 0x30) and
                  not (st == 0 and outm == 'stdout' and out == d))
        else:
            ok = False
        # the property itself on this case
        if force and outm == 'stdout' and not is_magic(d):
            if not (st == 0 and out == d and err_ == b''):
                ck.violation('-cdf did not copy a non-bzip2 FILE operand', {
                    'argv': ['lbzip2', '-d', '-f', '-c', 'x.bz2'],
                    'input_hex': d.hex(), 'status': st})
                continue
        if not ok:
            ck.log('decision mismatch: input %s force=%d out=%s model=%r real: '
                   'status %r, %d bytes, stderr %r' % (d[:8].hex(), force, outm,
                                                      rep, st, len(out), err_[:80]))
            ck.broken.append('correspondence: work() decision differs from '
                             'Model.Copy.sniff on %s force=%d %s' % (
                                 d[:8].hex(), force, outm))
    dist['decisions'] = ndec

nontriv = len(distinct)
ck.log('input distribution:', dist)
ck.finish({
    'evaluations': evaluations,
    'distinct_nontrivial': nontriv,
    'rule': 'distinct (input sha1, feeding mode, perturbation seed, reader '
            'speed) tuples of real-program runs; every run moves data through '
            'the sniff and (except 0..4-byte inputs) the copy threads',
    'samples': samples,
    'exhaustive': False,
    'distribution': dist,
    'inputs': {'copy': len(inputs), 'with_header': len(hdr_inputs)},
}, extra_assumptions=[
    'read(2) returns 0 only at end of input and write(2) returns >= 1 or '
    'fails (I/O errors are property C21)',
    'a blocked, process-directed SIGUSR2 stays pending until the main thread '
    'reaches sigsuspend() (POSIX); the model counts xraise() calls',
    'the header_case theorem identifies the run with schedule(&expansion) on '
    'the remaining input; the decompressor itself is the subject of C02-C13'])
