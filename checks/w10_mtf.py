#!/usr/bin/env python3
"""W10 campaign: MTF / zero-run (RLE2) stage of the compressor and its inverse
in the decompressor -- C code vs Lean model vs Lean spec.

Library use (from checks/C01.py, C05.py, C06.py, C08.py):

    import w10_mtf
    cov = w10_mtf.run(ck)        # dict: evaluations, distinct_nontrivial, ...

`run` builds harness/h_mtf*.c from /repo's working tree (ASan + UBSan, asserts
on), starts it and the Lean driver, and compares on the same requests

  domtf    real make_map_e + do_mtf   | Model.MtfEnc.doMtfFreq | Spec.Mtf.mtfRle2
  unmtf    real retrieve() (both the  | Model.MtfDec.retrieveSyms | Spec.Mtf.unMtfRle2
           fast and the slow path)
  mtfone   real mtf_one               | Model.MtfDec.mtfOne    | list move-to-front
  mtfconsts ROW_WIDTH SLIDE_LENGTH NUM_ROWS CMAP_BASE MAX_BLOCK_SIZE

The property is judged with the Spec oracle: a block that does not survive
do_mtf -> unMtfRle2, or a symbol list on which retrieve() succeeds with bytes
different from the reference (or succeeds where the reference rejects, or the
other way round) is a violation with the input as replay.  C and Model
disagreeing while the property holds is a broken correspondence.

Standalone (`python3 checks/w10_mtf.py [--tier quick|thorough]`) runs the
campaign for testing and prints the coverage; it writes NO evidence file.
"""
import concurrent.futures
import hashlib
import os
import subprocess
import sys
import threading
import time

sys.path.insert(0, os.path.join(os.path.dirname(os.path.abspath(__file__)),
                                '..', 'tools'))
from vlib import Check, REPO  # noqa: E402

MAXB = 900000


# ------------------------------------------------------------------ helpers
def hx(bs):
    return bytes(bs).hex() if len(bs) else '-'


def cl(xs):
    return ','.join(map(str, xs)) if len(xs) else '-'


def run_digits(n):
    """bijective base-2, least significant first, RUNA=0 RUNB=1"""
    out = []
    while n > 0:
        if n % 2 == 1:
            out.append(0)
            n = (n - 1) // 2
        else:
            out.append(1)
            n = (n - 2) // 2
    return out


def py_encode(used, block):
    """independent Python reference of the stage (used sorted)"""
    l = list(used)
    syms = []
    k = 0
    for b in block:
        p = l.index(b)
        if p == 0:
            k += 1
            continue
        syms += run_digits(k)
        k = 0
        syms.append(p + 1)
        l.insert(0, l.pop(p))
    syms += run_digits(k)
    syms.append(len(used) + 1)
    return syms


class Batch:
    """Requests for the C harness and the Lean driver, answered in one run of
    each (lbzdrv flushes its replies only at end of input)."""

    def __init__(self, cp):
        self.cp = cp
        self.items = []

    def add(self, creqs, mreqs, fn):
        self.items.append((list(creqs), list(mreqs), fn))

    def _run(self, argv, reqs, tag, env=None):
        cp = self.cp
        with cp.lock:
            cp.nbatch += 1
            nb = cp.nbatch
        fin = os.path.join(cp.ck.tmp, 'w10_%s_%d.in' % (tag, nb))
        fout = os.path.join(cp.ck.tmp, 'w10_%s_%d.out' % (tag, nb))
        with open(fin, 'w') as f:
            for r in reqs:
                f.write(r)
                f.write('\n')
        with open(fin) as fi, open(fout, 'w') as fo:
            try:
                p = subprocess.run(argv, stdin=fi, stdout=fo,
                                   stderr=subprocess.PIPE, env=env,
                                   timeout=3000)
                rc, err = p.returncode, p.stderr.decode('utf-8', 'replace')
            except subprocess.TimeoutExpired:
                rc, err = 'timeout', ''
        with open(fout) as f:
            replies = f.read().split('\n')
        if replies and replies[-1] == '':
            replies.pop()
        os.unlink(fin)
        os.unlink(fout)
        return replies, rc, err

    def run(self):
        cp, ck = self.cp, self.cp.ck
        creqs = [r for it in self.items for r in it[0]]
        mreqs = [r for it in self.items for r in it[1]]
        # the harness and the driver (split over a few processes) in parallel
        nm = 1 if len(mreqs) < 64 else 3
        cuts = [len(mreqs) * k // nm for k in range(nm + 1)]
        with concurrent.futures.ThreadPoolExecutor(nm + 1) as ex:
            fc = ex.submit(self._run, [cp.hexe], creqs, 'c', cp.env)
            fm = [ex.submit(self._run, [cp.drv], mreqs[cuts[k]:cuts[k + 1]],
                            'm%d' % k) for k in range(nm)]
            crep, crc, cerr = fc.result()
            mrep, mrc, merr = [], 0, ''
            for k, f in enumerate(fm):
                r, rc, err = f.result()
                if mrc == 0 and (rc != 0 or len(r) != cuts[k + 1] - cuts[k]):
                    mrep += r
                    mrc, merr = rc or 'short', err
                elif mrc == 0:
                    mrep += r
        if len(crep) < len(creqs) or crc != 0:
            bad = creqs[len(crep)] if len(crep) < len(creqs) else '(at exit)'
            ck.violation('h_mtf died (sanitizer / assert / crash, status %s):'
                         ' %s' % (crc, cerr[-600:]),
                         {'cmd': bad[:200000], 'status': crc,
                          'stderr': cerr[-3000:]})
            cp.dead = True
            return
        if len(mrep) != len(mreqs) or mrc != 0:
            bad = mreqs[len(mrep)] if len(mrep) < len(mreqs) else '(at exit)'
            ck.broken.append('correspondence: lbzdrv died (status %s) on %s: '
                             '%s' % (mrc, bad[:200], merr[-300:]))
            cp.dead = True
            return
        ci = mi = 0
        for cr, mr, fn in self.items:
            fn(crep[ci:ci + len(cr)], mrep[mi:mi + len(mr)])
            ci += len(cr)
            mi += len(mr)


class Camp:
    def __init__(self, ck, hexe, drv, env):
        self.ck, self.hexe, self.drv, self.env = ck, hexe, drv, env
        self.evals = 0
        self.hashes = set()
        self.nontrivial = set()
        self.samples = []
        self.dist = {}
        self.t0 = time.time()
        self.nbatch = 0
        self.lock = threading.Lock()
        self.dead = False
        self.b = Batch(self)       # current batch
        self.nxt = Batch(self)     # requests that depend on its replies

    def flush(self):
        while self.b.items and not self.dead:
            self.b.run()
            self.b, self.nxt = self.nxt, Batch(self)

    def note(self, key, n=1):
        self.dist[key] = self.dist.get(key, 0) + n

    def seen(self, req, nontrivial):
        self.evals += 1
        h = hashlib.sha1(req.encode()).hexdigest()
        self.hashes.add(h)
        if nontrivial:
            self.nontrivial.add(h)

    def sample(self, req, reply):
        if len(self.samples) < 10 and len(req) < 300:
            self.samples.append({'request': req, 'reply': reply[:200]})

    # ---------------------------------------------------------------- domtf
    def domtf(self, used, block, fam, then=None):
        """then(syms): called (during the batch run) with the agreed symbol
        list, to queue follow-up requests on self.nxt"""
        ck = self.ck
        req = 'domtf %s %s' % (hx(used), hx(block))
        sreq = 'specmtf %s %s' % (hx(used), hx(block))
        self.note('domtf.' + fam)
        self.note('domtf.bytes', len(block))
        self.seen(req, len(set(block)) >= 2 and len(block) >= 4)

        def fn(cr, mr):
            c, (m, s) = cr[0], mr
            if len(block) <= 40:
                self.sample(req, c)
            if c == m == s:
                syms = c.split(' ')[1]
                if len(block) <= 3000 and syms != cl(py_encode(used, block)):
                    ck.broken.append('correspondence: Python reference of '
                                     'mtfRle2 differs from C/Model/Spec on '
                                     + req[:200])
                if then:
                    then([int(x) for x in syms.split(',')])
                return
            # judge the property (C01): do C's symbols decode to the block?
            def judge(cr2, mr2):
                rt = mr2[0]
                if not rt.startswith('ok ') or rt.split(' ')[1] != hx(block):
                    ck.violation('do_mtf output does not decode back to the '
                                 'block (reference unMtfRle2): C=%s '
                                 'roundtrip=%s' % (c[:200], rt[:200]),
                                 {'cmd': req, 'c': c[:4000], 'model': m[:4000],
                                  'spec': s[:4000]})
                else:
                    ck.broken.append('correspondence: domtf C/Model/Spec '
                                     'differ (C still round-trips) on ' +
                                     req[:300] + ' C=' + c[:120] + ' M=' +
                                     m[:120] + ' S=' + s[:120])
            if c.startswith('ok ') and len(c.split(' ')) == 3:
                self.nxt.add([], ['specunmtf %s %s %d' % (
                    hx(used), c.split(' ')[1], max(len(block), 1))], judge)
            else:
                ck.violation('do_mtf: unexpected reply C=%s' % c[:200],
                             {'cmd': req, 'c': c[:4000], 'model': m[:4000]})
        self.b.add([req], [req, sreq], fn)

    # ---------------------------------------------------------------- unmtf
    def unmtf(self, used, syms, fam, limit=MAXB, chunks=(0,), expect=None,
              nxt=False):
        """expect: bytes the Spec must return (round trips)"""
        ck = self.ck
        req = 'unmtf %s %s %d' % (hx(used), cl(syms), limit)
        self.note('unmtf.' + fam)
        self.note('unmtf.syms', len(syms))
        self.seen(req, len(syms) >= 3)
        creqs = []
        if limit == MAXB:
            for ch in chunks:
                creqs += ['chunk %d' % ch, req]
                self.note('unmtf.C.chunk%s' % ('0' if ch == 0 else 'N'))

        def fn(cr, mr):
            m, s = mr
            self.sample(req, m)
            self.note('unmtf.reply.' + (m if m.startswith('err')
                                        else m.split(' ')[0]))
            if expect is not None and (not s.startswith('ok ') or
                                       s.split(' ')[1] != hx(expect)):
                ck.violation('do_mtf -> reference unMtfRle2 is not the '
                             'identity', {'used': hx(used), 'block':
                                          hx(expect), 'syms': cl(syms),
                                          'decoded': s[:4000]})
            ms = m if m.startswith('ok ') else (
                'err' if m.startswith('err ') else m)
            cs = [(chunks[i], cr[2 * i + 1]) for i in range(len(cr) // 2)]
            c_all_spec = True
            for ch, c in cs:
                cspec = c if c.startswith('ok ') else (
                    'err' if c in ('err overflow', 'err unterm') else c)
                if cspec != s:
                    c_all_spec = False
                    if c.startswith('ok '):
                        what = ('retrieve() accepts a symbol sequence with a '
                                'result different from the reference (C05): '
                                'C=%s spec=%s' % (c[:160], s[:160]))
                    elif s.startswith('ok '):
                        what = ('retrieve() rejects a symbol sequence the '
                                'reference decodes (C06): C=%s spec=%s'
                                % (c[:160], s[:160]))
                    else:
                        what = 'retrieve() unexpected status: C=%s' % c[:160]
                    ck.violation(what, {'cmd': req, 'chunk_words': ch,
                                        'c': c[:4000], 'model': m[:4000],
                                        'spec': s[:4000]})
                elif c != m:
                    ck.broken.append('correspondence: unmtf C=%s Model=%s on '
                                     '%s (chunk %d)' % (c[:120], m[:120],
                                                        req[:300], ch))
            if ms != s and c_all_spec:
                ck.broken.append('correspondence: Model.retrieveSyms=%s '
                                 'Spec.unMtfRle2=%s on %s'
                                 % (m[:120], s[:120], req[:300]))
        (self.nxt if nxt else self.b).add(creqs, [req, 'spec' + req], fn)

    # --------------------------------------------------------------- mtfone
    def mtfone(self, init, idx, fam, want_rebuilds=0, want_stat=None):
        ck = self.ck
        req = 'mtfone %s %s' % (hx(init), cl(idx))
        self.note('mtfone.' + fam)
        self.note('mtfone.calls', len(idx))
        self.seen(req, len(idx) >= 2)

        def fn(cr, mr):
            c, stat = cr
            m, s = mr
            st = stat.split(' ')
            if c != 'abort':
                self.note('mtfone.rebuilds', int(st[1]))
                if int(st[0]) == 0:
                    self.note('mtfone.row0_reached_0')
                if want_rebuilds and int(st[1]) < want_rebuilds:
                    ck.broken.append('campaign: expected >= %d rebuilds, C '
                                     'did %s' % (want_rebuilds, st[1]))
                if want_stat is not None and stat != want_stat:
                    ck.broken.append('campaign: expected mtfstat %s, C says '
                                     '%s' % (want_stat, stat))
            if 0 in idx:
                # mtf_one(0) is `default: abort()`; never called by retrieve()
                if c != 'abort' or m != 'abort':
                    ck.broken.append('correspondence: mtfone index 0: C=%s '
                                     'M=%s' % (c[:60], m[:60]))
                return
            cparts = c.split(' ')
            sparts = s.split(' ')
            if len(cparts) != 3 or len(sparts) != 2 or \
                    cparts[0] != sparts[0] or cparts[2] != sparts[1]:
                ck.violation('mtf_one differs from list move-to-front: C=%s '
                             'spec=%s' % (c[:200], s[:200]),
                             {'cmd': req[:200000], 'c': c, 'model': m,
                              'spec': s})
            elif c != m:
                ck.broken.append('correspondence: mtfone C=%s Model=%s on %s'
                                 % (c[:100], m[:100], req[:200]))
        self.b.add([req, 'mtfstat'], [req, 'spec' + req], fn)


# ----------------------------------------------------------------- families
def rand_used(rng, n=None):
    if n is None:
        n = rng.choice([1, 2, 3, 4, 5, 8, 15, 16, 17, 31, 32, 33, 64, 100,
                        200, 254, 255, 256, rng.randint(1, 256)])
    return sorted(rng.sample(range(256), n))


def rand_block(rng, used, n):
    kind = rng.choice(['uniform', 'skew', 'runs', 'local'])
    if kind == 'uniform' or len(used) == 1:
        return [rng.choice(used) for _ in range(n)], kind
    out = []
    if kind == 'skew':
        w = [1.0 / (i + 1) ** 2 for i in range(len(used))]
        out = rng.choices(used, weights=w, k=n)
    elif kind == 'runs':
        while len(out) < n:
            b = rng.choice(used)
            out += [b] * rng.choice([1, 1, 2, 3, 4, 5, 7, 8, 9, 15, 16, 17,
                                     rng.randint(1, 300)])
        out = out[:n]
    else:
        recent = [rng.choice(used) for _ in range(4)]
        for _ in range(n):
            if rng.random() < 0.8:
                b = rng.choice(recent)
            else:
                b = rng.choice(used)
                recent[rng.randrange(4)] = b
            out.append(b)
    return out, kind


def run_lengths(quick):
    ls = {1, 2, 3, 4, 5, 6, 7}
    k = 2
    while 2 ** k - 1 <= MAXB:
        for d in (-1, 0, 1):
            v = 2 ** k + d
            if 1 <= v <= MAXB:
                ls.add(v)
        k += 1
    ls |= {MAXB - 1, MAXB, 899999, 524287, 524288, 524289}
    ls = sorted(ls)
    if quick:
        # all small ones, every boundary triple up to 2^14, then a few large
        small = [v for v in ls if v <= 2 ** 14 + 1]
        big = [2 ** 16 - 1, 2 ** 16, 2 ** 16 + 1, MAXB]
        return small + big
    return ls


def campaign(cp, ck):
    rng = ck.rng
    quick = ck.quick

    # constants
    def consts(cr, mr):
        if cr[0] != mr[0]:
            ck.broken.append('correspondence: constants differ C=%s Model=%s '
                             '(ROW_WIDTH SLIDE_LENGTH NUM_ROWS CMAP_BASE '
                             'MAX_BLOCK_SIZE)' % (cr[0], mr[0]))
    cp.b.add(['mtfconsts'], ['mtfconsts'], consts)
    cp.seen('mtfconsts', False)

    # ---- A. random blocks, encoder and decoder both directions
    nA = 150 if quick else 1500
    for i in range(nA):
        used = rand_used(rng)
        n = rng.choice([0, 1, 2, 3, 10, 50, 51, 100, rng.randint(0, 400),
                        rng.randint(0, 3000 if quick else 20000)])
        if i == 0:
            n = 0
        block, kind = rand_block(rng, used, n)
        # the encoder is only ever given the bytes that occur (+ RLE1 extras)
        if rng.random() < 0.5 and block:
            used = sorted(set(block) | set(rng.sample(
                used, min(len(used), rng.randint(0, 3)))))
        ch = rng.choice([1, 2, 7, 31])

        def then(sl, used=used, block=block, i=i, ch=ch):
            cp.unmtf(used, sl, 'roundtrip', chunks=(0, ch), expect=block,
                     nxt=True)
            # tight limit: exactly fits / one short (model vs spec only)
            if i % 5 == 0:
                cp.unmtf(used, sl, 'limit-exact', limit=len(block),
                         expect=block, nxt=True)
                if block:
                    cp.unmtf(used, sl, 'limit-short', limit=len(block) - 1,
                             nxt=True)
        cp.domtf(used, block, kind, then)

    # ---- B. long zero runs
    for L in run_lengths(quick):
        variants = ['front', 'after', 'mid']
        if quick and L > 70000:
            variants = [rng.choice(variants)]
        for v in variants:
            used = rand_used(rng, rng.choice([1, 2, 3, 40, 256])
                             if v == 'front' else rng.choice([2, 3, 40, 256]))
            if v == 'front':
                block = [used[0]] * L          # initial run: run starts at 0
            elif v == 'after':
                if L + 1 > MAXB:
                    continue
                block = [used[1]] + [used[1]] * L
            else:
                if L + 3 > MAXB:
                    continue
                block = [used[-1], used[0]] + [used[0]] * L + [used[-1]]
            cp.note('zrun.len.2^%02d' % (L.bit_length() - 1))

            def then(sl, used=used, block=block, v=v, L=L):
                cp.unmtf(used, sl, 'zrun-' + v, expect=block, nxt=True,
                         chunks=(0, 5) if L < 5000 else (0,))
            cp.domtf(used, block, 'zrun-' + v, then)
        if L > 100000:
            cp.flush()          # keep the request files small

    # ---- C. decoder: crafted symbol sequences
    nC = 220 if quick else 3000
    for i in range(nC):
        used = rand_used(rng)
        n = len(used)
        eob = n + 1
        kinds = ['random'] * 5 + ['runheavy'] * 3 + ['guard'] * 3 + \
            ['unterm'] * 2 + ['many-runs'] * 3 + ['overflow-run',
                                                  'overflow-sum']
        if not quick:
            kinds += ['overflow-run', 'overflow-sum']
        kind = rng.choice(kinds)
        syms = []
        if kind == 'random':
            ln = rng.randint(0, 200)
            syms = [rng.randint(0, n) for _ in range(ln)]
        elif kind == 'runheavy':
            ln = rng.randint(0, 120)
            syms = [rng.choice([0, 1, 0, 1, rng.randint(0, n)])
                    for _ in range(ln)]
        elif kind == 'overflow-run':
            # a single run of MAXB + d, possibly after some bytes
            pre = [rng.randint(2, n) if n >= 2 else 0
                   for _ in range(rng.randint(0, 3))]
            pre_len = sum(1 if s >= 2 else (s + 1) * 1 for s in pre) \
                if n >= 2 else 0
            if n < 2:
                pre, pre_len = [], 0
            d = rng.choice([-2, -1, 0, 1, 2, 100])
            tgt = MAXB + d - pre_len
            syms = pre + run_digits(tgt)
        elif kind == 'overflow-sum':
            # several runs adding up to about MAXB
            tot = 0
            tgt = MAXB + rng.choice([-1, 0, 1])
            while tot < tgt:
                r = min(tgt - tot, rng.choice([1, 3, 1000, 70000, 300000,
                                               899999]))
                if n >= 2 and syms:
                    syms.append(rng.randint(2, n))
                    tot += 1
                    r = min(r, tgt - tot)
                syms += run_digits(r)
                tot += r
                if n < 2:
                    break
        elif kind == 'guard':
            # enough RUN symbols to push run past MAX_BLOCK_SIZE and keep going
            syms = [rng.randint(0, 1) for _ in range(rng.randint(18, 45))]
            if n >= 2 and rng.random() < 0.5:
                syms = [rng.randint(2, n)] + syms
        elif kind == 'unterm':
            syms = [rng.randint(0, n) for _ in range(50 * rng.randint(1, 3))]
        else:
            syms = []
            for _ in range(rng.randint(1, 30)):
                syms += run_digits(rng.choice([1, 2, 3, 4, 7, 8, 255, 256,
                                               rng.randint(1, 5000)]))
                if n >= 2:
                    syms.append(rng.randint(2, n))
        terminated = kind != 'unterm' and rng.random() < 0.9
        if terminated:
            syms = syms + [eob]
            if rng.random() < 0.2:       # junk after EOB is ignored
                syms += [rng.randint(0, eob) for _ in range(rng.randint(1, 9))]
        else:
            syms = syms + [0] * ((-len(syms)) % 50)
            if not syms:
                syms = [0] * 50
        cp.unmtf(used, syms, kind, chunks=(0, rng.choice([1, 3, 33])))
        if i % 4 == 0:
            cp.unmtf(used, syms, kind + '-smalllimit',
                     limit=rng.choice([0, 1, 2, 10, 100, 1000]))

    # ---- D. sliding lists
    ident = []
    nD = 60 if quick else 600
    for i in range(nD):
        init = ident if rng.random() < 0.3 else \
            rng.choice([rng.sample(range(256), 256),
                        [rng.randrange(256) for _ in range(256)]])
        kind = rng.choice(['small', 'mixed', 'big', 'edges'])
        ln = rng.choice([1, 2, 10, 100, rng.randint(1, 2000)])
        if kind == 'small':
            idx = [rng.randint(1, 15) for _ in range(ln)]
        elif kind == 'mixed':
            idx = [rng.randint(1, 255) for _ in range(ln)]
        elif kind == 'big':
            idx = [rng.randint(16, 255) for _ in range(ln)]
        else:
            idx = [rng.choice([1, 15, 16, 17, 31, 32, 239, 240, 241, 254,
                               255]) for _ in range(ln)]
        cp.mtfone(init, idx, kind)
    cp.mtfone(ident, [0], 'abort')
    cp.mtfone(ident, [5, 200, 0, 3], 'abort')
    # rebuilds: row 0 slides once per general-path call, CMAP_BASE = 7936
    # slides reach the bottom; > 2 * 7936 general calls force two rebuilds
    for j in range(2 if quick else 6):
        init = rng.sample(range(256), 256)
        n = 2 * 7936 + rng.randint(200, 3000)
        if j == 0:
            idx = [rng.randint(16, 255) for _ in range(n)]
        elif j == 1:
            idx = [rng.choice([16, 255, rng.randint(1, 255)])
                   for _ in range(int(n * 1.6))]
        else:
            idx = [rng.randint(1, 255) if rng.random() < 0.3
                   else rng.randint(16, 255) for _ in range(int(n * 1.5))]
        cp.mtfone(init, idx, 'rebuild', want_rebuilds=2)
    # exactly at the bottom: 7936 slides, then fast-path calls on row 0 at
    # offset 0, then the rebuild
    init = rng.sample(range(256), 256)
    idx = [rng.randint(16, 255) for _ in range(7936)]
    cp.mtfone(init, idx, 'bottom', want_stat='0 0')
    cp.mtfone(init, idx + [rng.randint(1, 15) for _ in range(40)], 'bottom')
    cp.mtfone(init, idx + [7, 15, 1, 16], 'bottom', want_rebuilds=1)
    cp.mtfone(init, idx + [255] + idx + [3, 255], 'bottom', want_rebuilds=2)
    cp.flush()


def run(ck):
    """Run the W10 campaign under Check `ck`; returns a coverage dict."""
    h = ck.cc('h_mtf', ['harness/h_mtf.c', 'harness/h_mtf_enc.c',
                        'harness/h_mtf_dec.c',
                        os.path.join(REPO, 'src', 'crctab.c')])
    if h is None:
        return {'evaluations': 0, 'distinct_nontrivial': 0}
    env = dict(os.environ)
    env['ASAN_OPTIONS'] = 'detect_leaks=0:handle_abort=0:' \
        'allow_user_segv_handler=1'
    cp = Camp(ck, h, ck.driver(), env)
    campaign(cp, ck)
    ck.log('w10_mtf: %d evaluations, %d distinct, %d distinct non-trivial, '
           '%.1fs' % (cp.evals, len(cp.hashes), len(cp.nontrivial),
                      time.time() - cp.t0))
    for k in sorted(cp.dist):
        ck.log('   %-28s %d' % (k, cp.dist[k]))
    return {'evaluations': cp.evals,
            'distinct_nontrivial': len(cp.nontrivial),
            'rule': 'request line hashed; non-trivial = block with >= 2 '
                    'distinct bytes and >= 4 bytes / symbol list of >= 3 '
                    'symbols / >= 2 mtf_one calls',
            'samples': cp.samples,
            'distribution': cp.dist,
            'exhaustive': False}


if __name__ == '__main__':
    ck = Check('C01')
    cov = run(ck)
    print('coverage:', {k: v for k, v in cov.items()
                        if k not in ('samples', 'distribution')})
    if ck.broken or ck.violations:
        print('BROKEN:', ck.broken[:10])
        print('VIOLATIONS:', ck.violations[:10])
        sys.exit(1)
    print('w10_mtf standalone: all agree (no evidence written)')
    sys.exit(0)
