#!/usr/bin/env python3
"""W25 CRC-flip correspondence library (property C15: "stored CRC fields are
enforced").  Ties the file-level theorems
  Props.C15.File.block_crc_flip_rejected   (flip any bit of any block's stored
                                            32-bit CRC of an accepted file)
  Props.C15.File.stream_crc_flip_rejected  (same for any stream's stored
                                            combined CRC)
to the REAL program: on the small VALID files of the decoder campaign every
stored CRC field is located with the Python oracle
(bzformat.strict_decode(..., want_info=True): `bit_start` of a block + 48,
`eos_bits` of a stream + 48; bit 0 = most significant bit of byte 0), one bit
of it is flipped and ALL of

  Real   lbzip2 -d -n1 < file   and   lbzip2 -d -n4 < file   (built from /repo)
  Model  lbzdrv  expandfile <hex>     (Model.Expand.expandFile)
  Spec   lbzdrv  decode <hex>         (Spec.Bzip2.decodeFile)
  Py     bzformat.strict_decode

must reject the flipped file (and all accept the original with equal bytes).

Three kinds of flips:
  block   one bit of a block's stored CRC.  Model `err 15 block`, Spec
          `err block-crc`.  NOTE: lbzip2's parser folds the STORED block CRCs
          into the combined CRC (parse.c BLOCK_CRC_2), so such a file also has
          a stream CRC mismatch and the real program prints whichever of the
          two it meets first (counted in `real_messages`, never an alarm).
  stream  one bit of a stream's stored combined CRC.  Model `err 16`, Spec
          `err stream-crc`.
  block+  ("compensated", an addition that makes the block comparison in
          do_reorder visible on its own) the block flip together with the one
          bit of the same stream's combined CRC that keeps the parser's check
          satisfied: only `oblk->crc != ord.hdr.crc` can reject it.  Model
          `err 15 block`, Spec `err block-crc`.

Verdicts:
  * real accepts a flipped file / crashes / hangs  -> violation (C15), replay =
    the file, the flipped bit, the field, n.
  * model or spec or Python oracle accepts a flipped file -> broken
    correspondence / oracle (the real program rejecting).
  * model / spec reject for another reason than the expected one -> counted
    (`unexpected_reason`) and broken correspondence (they are deterministic).
  * the messages of the real program are only counted.

Both tiers are bounded by construction (TIERS, plan()), because starting the
real program is the cost and it does not parallelise on this machine:
quick    at most 60 files (the smallest without a block / with one block /
         with several blocks, four named multi-block / multi-stream files, a
         seeded sample of the others) and 900 flipped files: a seeded sample
         of 4 bits of every field and one compensated flip per file; what is
         left of the 900 gives all 32 bits of every field to the smallest
         files (<= 10);
thorough every file, at most 16000 flipped files: 8 seeded bits of every
         field, 2 compensated flips per block field, the rest of the budget
         gives all 32 bits to the smallest files (about 200 fields);
W25_ALL=1 in the environment: every bit of every field of every file.

Use:  run(ck) from a property check, or standalone
      `python3 checks/w25_crcflip.py [--tier quick|thorough]` (prints the
      summary, writes NO property evidence)."""
import bz2
import concurrent.futures
import hashlib
import os
import sys

HERE = os.path.dirname(os.path.abspath(__file__))
sys.path.insert(0, os.path.join(HERE, '..', 'tools'))
sys.path.insert(0, HERE)
import vlib  # noqa: E402
import proc  # noqa: E402
import bzformat as B  # noqa: E402
import camp_decode as C  # noqa: E402
import w22_expand as W  # noqa: E402

NPROC = W.NPROC
# Starting a process costs 6..10 ms on this machine and does NOT get faster in
# parallel (100..180 lbzip2 runs per second whatever the number of workers;
# more workers only burn system time), so both tiers are bounded by the number
# of runs of the real program: 2 per flipped file.  See plan().
#         files  flipped  bits per  compensated flips per     files with
#                files    field     block field: base / full  all 32 bits
TIERS = {'quick': (60, 900, 4, 0, 4, 10),         # 0 -> one per file
         'thorough': (10 ** 6, 16000, 8, 2, 4, 10 ** 6),
         'all': (10 ** 6, 10 ** 9, 32, 32, 32, 0)}   # W25_ALL=1: ~1 h
KEEP = ('hello-l9', 'two-blocks-l3', 'cat-hello-empty-hello',
        'cat-empty-empty-empty')
REAL_WORKERS = 3    # see above
MAXMSG = 8
MAXVIOL = 8

EXPECT = {'block': ('err 15 block', 'err block-crc', 'err blkcrc'),
          'stream': ('err 16', 'err stream-crc', 'err strmcrc'),
          'block+': ('err 15 block', 'err block-crc', 'err blkcrc')}


def py_reason(data):
    try:
        return 'ok ' + W.hx(B.strict_decode(data))
    except B.Reject as e:
        return 'err ' + str(e)
    except (IndexError, ValueError, KeyError) as e:
        return 'exc ' + repr(e)


def py_info(data):
    """(plain, block fields, stream fields) or None when the oracle rejects.
    block field = (bit offset of the CRC, stream number, index in stream);
    stream field = bit offset of the CRC."""
    try:
        plain, infos, meta = B.strict_decode(data, want_info=True)
    except (B.Reject, IndexError, ValueError, KeyError):
        return None
    blocks = []
    per = {}
    for inf in infos:
        s = inf['stream']
        blocks.append((inf['bit_start'] + 48, s, per.get(s, 0)))
        per[s] = per.get(s, 0) + 1
    streams = [e + 48 for e in meta['eos_bits']]
    return plain, blocks, streams, per


def flip(data, bits):
    b = bytearray(data)
    for p in bits:
        b[p >> 3] ^= 1 << (7 - (p & 7))
    return bytes(b)


def valid_files(ck):
    """(name, data) candidates: the valid part of the decoder campaign, the
    two corner files of w22_expand, some concatenations of small files."""
    rng = ck.rng
    cases = C.dedupe(C.gen_valid(rng, ck.quick))
    items = [(c.name, c.data) for c in cases if len(c.data) <= W.MAXLEN]
    items += W.corner_files(rng)
    empty9 = bz2.compress(b'')
    empty1 = bz2.compress(b'', 1)
    small = [(n, d) for n, d in items if len(d) <= 400]
    cat = [('cat-empty-empty', empty9 + empty1),
           ('cat-empty-empty-empty', empty1 + empty9 + empty1),
           ('cat-empty-hello', empty9 + bz2.compress(b'hello')),
           ('cat-hello-empty', bz2.compress(b'hello') + empty1),
           ('cat-hello-empty-hello', bz2.compress(b'hello', 1) + empty9 +
            bz2.compress(b'world', 5))]
    if small:
        for k in range(6 if ck.quick else 24):
            parts = [rng.choice(small) for _ in range(rng.choice((2, 3)))]
            if k % 3 == 0:
                parts.insert(rng.randrange(len(parts) + 1),
                             ('empty', rng.choice((empty1, empty9))))
                parts = parts[:3]
            cat.append(('cat-' + '+'.join(n for n, _ in parts),
                        b''.join(d for _, d in parts)))
    items += [(n, d) for n, d in cat if len(d) <= W.MAXLEN]
    seen = set()
    uniq = []
    for n, d in items:
        k = hashlib.sha1(d).hexdigest()
        if k not in seen:
            seen.add(k)
            uniq.append((n, d))
    return uniq


def size_order(files):
    """Indices of `files` (sorted by size): the smallest file without a block,
    with exactly one block, with two or more blocks, then the others."""
    first = []
    for want in (lambda nb: nb == 0, lambda nb: nb == 1, lambda nb: nb >= 2):
        for fi, (_, _, inf) in enumerate(files):
            if want(len(inf[1])) and fi not in first:
                first.append(fi)
                break
    return first + [fi for fi in range(len(files)) if fi not in first]


def plan(rng, files, tier):
    """{file index: list of flips}, bounded by construction (TIERS): at most
    `maxfiles` files (the three smallest shapes, the files named KEEP, a
    seeded sample of the others) and `maxflips` flipped files.  Every chosen
    file first gets `nbits` seeded bits of every field and its compensated
    flips (files are dropped, largest first, if that alone exceeds the cap);
    what is left of the cap upgrades the files to all 32 bits of every field,
    smallest first, at most `maxfull` files."""
    maxfiles, maxflips, nbits, compother, compfull, maxfull = TIERS[tier]
    order = size_order(files)
    if len(order) > maxfiles:
        must = order[:3] + [fi for fi in order[3:] if files[fi][0] in KEEP]
        rest = [fi for fi in order if fi not in must]
        chosen = set(must[:maxfiles])
        chosen |= set(rng.sample(rest, min(len(rest),
                                           max(0, maxfiles - len(chosen)))))
        order = [fi for fi in order if fi in chosen]
    plans = {}
    total = 0
    for fi in order:
        _, blocks, streams, per = files[fi][2]
        pl = plan_flips(rng, nbits, compother, blocks, streams, per)
        if total + len(pl) > maxflips:
            continue
        plans[fi] = pl
        total += len(pl)
    nfull = 0
    for fi in order:
        if nfull >= maxfull or nbits >= 32:
            break
        if fi not in plans:
            continue
        _, blocks, streams, per = files[fi][2]
        pl = plan_flips(rng, 32, compfull, blocks, streams, per)
        if total - len(plans[fi]) + len(pl) > maxflips:
            break
        total += len(pl) - len(plans[fi])
        plans[fi] = pl
        nfull += 1
    return plans, nfull


def plan_flips(rng, nbits, ncomp, blocks, streams, per):
    """List of (kind, field_index, bit in field, tuple of absolute bits):
    `nbits` seeded bits (32 = all) of every field, `ncomp` compensated flips
    per block field."""
    out = []

    def pick(n):
        return list(range(32)) if n >= 32 else sorted(rng.sample(range(32), n))

    for i, (pos, _, _) in enumerate(blocks):
        for b in pick(nbits):
            out.append(('block', i, b, (pos + b,)))
    for i, pos in enumerate(streams):
        for b in pick(nbits):
            out.append(('stream', i, b, (pos + b,)))
    comp = []
    for i, (pos, s, j) in enumerate(blocks):
        rot = per[s] - 1 - j          # rotations applied after this block
        for b in range(32):
            v = (31 - b + rot) % 32   # value bit of the combined CRC
            comp.append(('block+', i, b, (pos + b, streams[s] + 31 - v)))
    if comp:
        k = max(1, int(ncomp * len(blocks)))
        comp = [comp[i] for i in sorted(rng.sample(range(len(comp)),
                                                   min(k, len(comp))))]
    return out + comp


def run(ck):
    summ = {'evaluations': 0, 'distinct_nontrivial': 0, 'files': 0,
            'fields_block': 0, 'fields_stream': 0, 'bits_flipped': 0,
            'bits_flipped_compensated': 0, 'unexpected_reason': 0,
            'real_messages': {}, 'samples': [], 'exhaustive': False,
            'rule': 'evaluations = runs of the real program on a flipped '
                    'file (2 per flipped file: -n1 and -n4), each judged '
                    'together with the model, the Lean reference and the '
                    'Python oracle on the same file; distinct = sha1 of the '
                    'flipped file; non-trivial = the original is accepted by '
                    'all four and the flip lies inside a stored CRC field '
                    'located by the oracle'}
    exe = ck.build_lbzip2(name='lbzip2-w25', asan=False)
    drv = ck.driver()
    if not exe:
        return summ
    rc, out, _ = vlib.batch([drv], ['expandfile -', 'decode -'])
    if out[:2] != ['err not-bzip2', 'err empty']:
        ck.broken.append('driver lacks the W22 commands (expandfile - / '
                         'decode - -> %r)' % out[:2])
        return summ
    rng = ck.rng
    cand = valid_files(ck)
    with concurrent.futures.ProcessPoolExecutor(max_workers=NPROC) as ex:
        bigs = list(ex.map(W.prescan, [d for _, d in cand], chunksize=16))
        cand = [it for it, b in zip(cand, bigs) if b <= W.MAXOUT]
        infos = list(ex.map(py_info, [d for _, d in cand], chunksize=16))
    files = [(n, d, inf) for (n, d), inf in zip(cand, infos)
             if inf is not None]
    files.sort(key=lambda t: (len(t[1]), t[0]))
    summ['files'] = len(files)
    summ['rejected_by_oracle_not_used'] = len(cand) - len(files)
    nbad = [0]
    nviol = [0]

    def broken(msg):
        nbad[0] += 1
        if nbad[0] <= MAXMSG:
            ck.broken.append(msg)

    def violation(what, replay):
        nviol[0] += 1
        if nviol[0] <= MAXVIOL:
            ck.violation(what, replay)

    # ---------------------------------------------------------- the cases
    tests = []      # (file index, kind, field index, bit, abs bits, data)
    seen = set()
    tier = 'all' if os.environ.get('W25_ALL') else \
        'quick' if ck.quick else 'thorough'
    plans, nfull = plan(rng, files, tier)
    summ['tier'] = tier
    summ['files_available'] = len(files)
    summ['files_all_32_bits'] = nfull
    files = [files[fi] for fi in sorted(plans)]
    plans = [plans[fi] for fi in sorted(plans)]
    summ['files'] = len(files)
    for fi, (nm, d, (plain, blocks, streams, per)) in enumerate(files):
        summ['fields_block'] += len(blocks)
        summ['fields_stream'] += len(streams)
        for kind, idx, b, bits in plans[fi]:
            fd = flip(d, bits)
            k = hashlib.sha1(fd).digest()
            if k in seen:
                continue
            seen.add(k)
            tests.append((fi, kind, idx, b, bits, fd))
            if kind == 'block+':
                summ['bits_flipped_compensated'] += 1
            else:
                summ['bits_flipped'] += 1
    summ['distinct_nontrivial'] = len(seen)
    alld = [d for _, d, _ in files] + [t[5] for t in tests]
    ck.log('w25 crcflip: %d files, %d block + %d stream CRC fields, %d '
           'flipped files' % (len(files), summ['fields_block'],
                              summ['fields_stream'], len(tests)))

    # ------------------------------------------------------------- running
    # One phase after the other: measured here, the real program starts
    # three times slower while 16 Lean processes run beside it.
    jobs = [dict(exe=exe, args=['-d', '-n%d' % n], data=d, timeout=60)
            for d in alld for n in (1, 4)]
    real = [W.real_reply(r) for r in proc.run_many(jobs, workers=REAL_WORKERS)]
    real1 = real[0::2]
    real4 = real[1::2]
    ck.log('w25 crcflip: real program done (%d runs)' % len(jobs))
    # model lines first, then spec lines: par_batch deals the lines out
    # round-robin, so every process gets the same mix of both
    lines = ['expandfile ' + W.hx(d) for d in alld] + \
            ['decode ' + W.hx(d) for d in alld]
    rep = W.par_batch(drv, lines)
    model = rep[:len(alld)]
    spec = rep[len(alld):]
    ck.log('w25 crcflip: model and spec done')
    with concurrent.futures.ProcessPoolExecutor(max_workers=NPROC) as ex:
        pyr = list(ex.map(py_reason, alld, chunksize=32))
    ck.log('w25 crcflip: python oracle done')

    # ----------------------------------------------------------- originals
    nf = len(files)
    for fi, (nm, d, inf) in enumerate(files):
        want = 'ok ' + W.hx(inf[0])
        got = {'real-n1': real1[fi], 'real-n4': real4[fi],
               'model': model[fi], 'spec': spec[fi], 'py': pyr[fi]}
        for who, r in got.items():
            if r == want:
                continue
            replay = {'file_hex': d.hex(), 'name': nm, 'who': who,
                      'reply': r[:200], 'expected': want[:200]}
            if who.startswith('real') and got['spec'] == want:
                if r.startswith('crash'):
                    violation('lbzip2 -d crashed / hung on a valid file',
                              replay)
                else:
                    violation('C06: lbzip2 -d rejected a valid file or '
                              'wrote different bytes (%s)' % who, replay)
            else:
                broken('correspondence: %s (%s) != Python oracle (%s) on the '
                       'valid file %s = %s' % (who, r[:60], want[:60], nm,
                                               d.hex()[:400]))

    # ------------------------------------------------------------ verdicts
    msgs = {}
    for ti, (fi, kind, idx, b, bits, fd) in enumerate(tests):
        k = nf + ti
        mm, ss, pp = model[k], spec[k], pyr[k]
        emodel, espec, epy = EXPECT[kind]
        nm = files[fi][0]
        real_rejects = True
        for n, rr in ((1, real1[k]), (4, real4[k])):
            summ['evaluations'] += 1
            replay = {'file_hex': fd.hex(), 'flipped_bit': bits[0],
                      'field': 'block' if kind != 'stream' else 'stream',
                      'field_index': idx, 'n': n, 'real': rr[:200],
                      'model': mm[:200], 'spec': ss[:200],
                      'original': nm, 'bit_in_field': b,
                      'cmd': 'lbzip2 -d -n%d < file' % n}
            if kind == 'block+':
                replay['also_flipped_bit'] = bits[1]
                replay['note'] = ('the bit of the stream CRC that keeps the '
                                  'combined CRC of the stored block CRCs '
                                  'consistent is flipped too')
            if rr.startswith('crash'):
                real_rejects = False
                violation('C15: lbzip2 -d crashed / hung on a file with a '
                          'flipped stored CRC bit', replay)
            elif rr.startswith('ok '):
                real_rejects = False
                violation('C15: lbzip2 -d accepted a file with a flipped '
                          'stored CRC bit', replay)
            if rr.startswith('err '):
                code = rr[4:]
                lab = {'15': 'block CRC mismatch',
                       '16': 'stream CRC mismatch'}.get(
                           code, 'other: ' + code[:40])
            else:
                lab = 'ACCEPTED' if rr.startswith('ok ') else rr[:40]
            dd = msgs.setdefault(kind, {}).setdefault('n%d' % n, {})
            dd[lab] = dd.get(lab, 0) + 1
        what = '%s bit %d of %s CRC %d (%s) of %s = %s' % (
            'flipped', b, kind, idx, bits, nm, fd.hex()[:400])
        for who, r, e in (('Model.Expand', mm, emodel),
                          ('Spec.decodeFile', ss, espec),
                          ('Python oracle', pp, epy)):
            if r.startswith('ok '):
                if real_rejects:
                    broken('correspondence: %s accepts (%s) what lbzip2 -d '
                           'rejects (%s / %s): %s' %
                           (who, r[:40], real1[k][:40], real4[k][:40], what))
                else:
                    broken('correspondence: %s accepts (%s) a file with a '
                           'flipped stored CRC bit: %s' % (who, r[:40], what))
            elif r != e:
                summ['unexpected_reason'] += 1
                broken('correspondence: %s rejects with %r instead of %r: %s'
                       % (who, r[:60], e, what))
        if len(summ['samples']) < 9 and ti % max(1, len(tests) // 9) == 0:
            summ['samples'].append({'original': nm, 'field': kind,
                                    'field_index': idx, 'bit_in_field': b,
                                    'flipped_bits': list(bits),
                                    'file_hex': fd.hex()[:160],
                                    'real_n1': real1[k][:60],
                                    'real_n4': real4[k][:60],
                                    'model': mm[:60], 'spec': ss[:60]})
    if nbad[0] > MAXMSG:
        ck.broken.append('correspondence: %d more W25 differences'
                         % (nbad[0] - MAXMSG))
    if nviol[0] > MAXVIOL:
        ck.log('w25 crcflip: %d more violations not recorded'
               % (nviol[0] - MAXVIOL))
    summ['violating_runs'] = nviol[0]
    summ['real_messages'] = msgs
    sizes = sorted(len(d) for _, d, _ in files)
    summ['sizes'] = {'min': sizes[0], 'median': sizes[len(sizes) // 2],
                     'max': sizes[-1]} if sizes else {}
    summ['streams_per_file'] = {}
    for _, _, inf in files:
        k = '%d' % len(inf[2])
        summ['streams_per_file'][k] = summ['streams_per_file'].get(k, 0) + 1
    ck.log('w25 crcflip: %d files, %d+%d fields, %d single + %d compensated '
           'flips, %d real runs, violating runs %d, differences %d, real '
           'messages %s' %
           (summ['files'], summ['fields_block'], summ['fields_stream'],
            summ['bits_flipped'], summ['bits_flipped_compensated'],
            summ['evaluations'], nviol[0], nbad[0], msgs))
    return summ


if __name__ == '__main__':
    ck = vlib.Check('C15')

    def _no_file(what, replay, signature=None, no_input=False):
        ck.violations.append(what)           # standalone: no replay files
        if len(ck.violations) <= 6:
            print('VIOLATION (standalone, not recorded):', what, '|',
                  str(replay)[:600])
    ck.violation = _no_file
    r = run(ck)
    print({k: v for k, v in r.items() if k not in ('samples',)})
    for s in r.get('samples', []):
        print('  ', s)
    for b in ck.broken:
        print('BROKEN:', b[:700])
    print('violations:', len(ck.violations), 'broken:', len(ck.broken),
          'wall %.1fs' % (__import__('time').time() - ck.t0))
    sys.exit(1 if ck.violations or ck.broken else 0)
