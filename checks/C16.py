#!/usr/bin/env python3
"""C16 — interrupted or failed runs never lose data.

Proof side: LbzVerif.Props.C16 (Model.Files: abstract file system + main's
per-operand step sequence with fault / signal oracles).

Tie (process level): the REAL lbzip2 built from /repo's working tree is run on
a FILE operand under the LD_PRELOAD fault injector harness/faultshim.c, which
numbers every lstat/open/fstat/read/write/fchown/fchmod/futimens/close/unlink
call and at one chosen call returns an errno or raises SIGINT / SIGTERM /
SIGKILL (before or after performing the call).  After the process ends the
directory is classified (input intact / gone, output absent / pre-existing /
complete / partial, metadata copied) together with the wait status and
whether stderr is empty.  Each observation is checked
  (1) directly against the property's dichotomy (the Spec-level oracle), and
  (2) for membership in the SET of outcomes the Lean model allows for that
      injection point (driver command `c16`), and
  (3) the fault-free system-call sequence of the main thread is compared with
      the model's step sequence (`c16seq`).
"""
import bz2
import concurrent.futures
import hashlib
import os
import shutil
import signal
import subprocess
import sys

sys.path.insert(0, os.path.join(os.path.dirname(os.path.abspath(__file__)),
                                '..', 'tools'))
from vlib import Check, VERIF, batch, sh  # noqa: E402

THEOREMS = ['kill_prefix', 'two_states', 'status_ok', 'status_warn',
            'status_fault', 'status_exit1', 'frame']

PRE = b'PRE-EXISTING OUTPUT FILE -- not written by this run\n'
IN_MODE = 0o644
IN_MTIME_NS = 1_500_000_000_123_456_789
MAIN_CLASSES = ['lstat', 'open', 'fstat', 'close', 'unlink', 'fchown',
                'fchmod', 'futimens']


def make_input(rng, size):
    words = [bytes(rng.randrange(97, 123) for _ in range(rng.randrange(2, 9)))
             for _ in range(400)]
    out = bytearray()
    while len(out) < size:
        out += rng.choice(words) + b' '
    return bytes(out[:size])


class Scenario:
    """mode c/d, -k, -f, pre-existing output."""

    def __init__(self, mode, keep, force, pre, plain, packed, level, nthr):
        self.mode, self.keep, self.force, self.pre = mode, keep, force, pre
        self.inname = 'data.txt' if mode == 'c' else 'data.txt.bz2'
        self.outname = 'data.txt.bz2' if mode == 'c' else 'data.txt'
        self.inbytes = plain if mode == 'c' else packed
        self.plain = plain
        self.packed = packed
        self.args = (['-%d' % level] if mode == 'c' else ['-d']) + \
            ['-n', str(nthr)] + (['-k'] if keep else []) + \
            (['-f'] if force else [])
        self.nreads = self.nwrites = None
        self.counts = {}

    def key(self):
        return '%s k=%d f=%d pre=%d' % (self.mode, self.keep, self.force,
                                        self.pre)

    def drv(self):
        return '%s %d %d %d %d %d' % (self.mode, self.keep, self.force,
                                      self.pre, self.nreads, self.nwrites)


def run_one(ck, exe, shim, sc, inj, serial):
    """One run in a fresh directory.  `inj` = None or (class, index, kind,
    arg, when).  Returns dict(summary, log, stderr, rc, hit)."""
    top = os.path.join(ck.tmp, 'r%06d' % serial)
    d = os.path.join(top, 'd')
    os.makedirs(d)
    inp = os.path.join(d, sc.inname)
    outp = os.path.join(d, sc.outname)
    with open(inp, 'wb') as f:
        f.write(sc.inbytes)
    os.chmod(inp, IN_MODE)
    os.utime(inp, ns=(IN_MTIME_NS, IN_MTIME_NS))
    if sc.pre:
        with open(outp, 'wb') as f:
            f.write(PRE)
        os.chmod(outp, 0o600)
    logp = os.path.join(top, 'log')
    env = dict(os.environ)
    for k in list(env):
        if k.startswith('FAULT_') or k in ('LBZIP2', 'BZIP2', 'BZIP'):
            del env[k]
    env['LD_PRELOAD'] = shim
    env['FAULT_LOG'] = logp
    if inj is not None:
        cls, idx, kind, arg, when = inj
        env['FAULT_CLASS'] = cls
        env['FAULT_INDEX'] = str(idx)
        if kind == 'errno':
            env['FAULT_ERRNO'] = arg
        else:
            env['FAULT_SIGNAL'] = arg
            env['FAULT_WHEN'] = when
    argv = [exe] + sc.args + [sc.inname]
    hang = False
    try:
        p = subprocess.run(argv, cwd=d, env=env, stdin=subprocess.DEVNULL,
                           stdout=subprocess.PIPE, stderr=subprocess.PIPE,
                           timeout=20, start_new_session=True)
        rc, err = p.returncode, p.stderr
    except subprocess.TimeoutExpired as e:
        hang, rc, err = True, None, e.stderr or b''
    # classify
    if not os.path.lexists(inp):
        i = 'gone'
    else:
        with open(inp, 'rb') as f:
            i = 'same' if f.read() == sc.inbytes else 'other'
    meta = '-'
    if not os.path.lexists(outp):
        o = 'none'
    else:
        with open(outp, 'rb') as f:
            ob = f.read()
        st = os.stat(outp)
        if sc.pre and ob == PRE:
            o = 'pre'
        else:
            if sc.mode == 'd':
                complete = ob == sc.plain
            else:
                complete = ob == sc.packed
                if not complete:
                    try:
                        complete = bz2.decompress(ob) == sc.plain
                    except Exception:
                        complete = False
            o = 'complete' if complete else 'partial'
            if complete:
                meta = '1' if ((st.st_mode & 0o7777) == IN_MODE and
                               st.st_mtime_ns == IN_MTIME_NS) else '0'
    if hang:
        e = 'hang'
    elif rc < 0:
        e = 'sig:%d' % -rc
    else:
        e = 'exit:%d' % rc
    log = []
    if os.path.exists(logp):
        with open(logp) as f:
            log = f.read().splitlines()
    others = sorted(x for x in os.listdir(d) if x not in (sc.inname,
                                                          sc.outname))
    shutil.rmtree(top, ignore_errors=True)
    return {
        'summary': 'in=%s out=%s meta=%s end=%s err=%d' % (
            i, o, meta, e, 1 if err else 0),
        'in': i, 'out': o, 'meta': meta, 'end': e, 'stderr': err[:300],
        'log': log, 'hit': any('inject=' in l for l in log),
        'argv': argv, 'others': others,
        'env': {k: v for k, v in env.items() if k.startswith('FAULT_')
                and k != 'FAULT_LOG'},
    }


def main_sequence(log):
    """Main-thread call classes, work() collapsed to one W."""
    seq = []
    for l in log:
        t = l.split()
        if t[0] in ('read', 'write') or t[2] == 'S':
            if not seq or seq[-1] != 'W':
                seq.append('W')
        else:
            seq.append(t[0])
    return seq


def dichotomy(sc, inj, r):
    """The property itself, evaluated on the observation.  Returns a list of
    complaints (empty = holds)."""
    bad = []
    i, o, e = r['in'], r['out'], r['end']
    out_untouched = (o == 'none') or (o == 'pre')
    if not sc.force and sc.pre and o != 'pre':
        bad.append('pre-existing output file harmed without -f')
    if not sc.force and not sc.pre and o == 'pre':
        bad.append('classification error')
    untouched = (i == 'same') and out_untouched
    rm_injected = (inj is not None and inj[0] == 'unlink' and
                   inj[2] == 'errno' and
                   inj[1] == (1 if sc.force else 0))
    done = (o == 'complete') and (i == 'gone' or (
        i == 'same' and (sc.keep or rm_injected)))
    if e == 'hang':
        bad.append('process hung')
        return bad
    if e == 'sig:9':
        if not (i == 'same' or (i == 'gone' and o == 'complete')):
            bad.append('after SIGKILL the input is not intact and no '
                       'complete output exists')
        return bad
    if not (untouched or done):
        bad.append('operand is neither untouched nor done: input %s, '
                   'output %s, %s' % (i, o, e))
    if e == 'exit:0' and not (done and r['meta'] == '1' and
                              (sc.keep or i == 'gone')):
        bad.append('exit status 0 but operand not done '
                   '(input %s, output %s, meta %s)' % (i, o, r['meta']))
    if e == 'exit:4' and not (done or (untouched and r['stderr'])):
        bad.append('exit status 4 but operand neither done nor skipped '
                   'with a warning')
    if e not in ('exit:0', 'exit:1', 'exit:4', 'sig:2', 'sig:15', 'sig:13',
                 'sig:25'):
        bad.append('unexpected way to end: ' + e)
    if inj is not None and r['hit']:
        cls, idx, kind, arg, when = inj
        work_fault = cls in ('read', 'write') and kind == 'errno'
        close_out = cls == 'close' and idx == 0 and kind == 'errno'
        if work_fault or close_out:
            if not untouched:
                bad.append('fault in work()/close(output) but operand not '
                           'untouched: input %s, output %s' % (i, o))
            if e not in ('exit:1', 'sig:13', 'sig:25'):
                bad.append('fault in work()/close(output) but ended with '
                           + e)
        if kind == 'sig' and arg in ('INT', 'TERM') and e.startswith('sig:') \
                and e != 'sig:%d' % (2 if arg == 'INT' else 15):
            bad.append('died from a different signal: ' + e)
        if kind == 'sig' and arg in ('INT', 'TERM') and e == 'exit:1':
            bad.append('signal turned into exit status 1')
    return bad


MAX_VIOLATION_FILES = 12


def main():
    ck = Check('C16')
    _violation = ck.violation
    nviol = [0]

    def capped(what, replay, **kw):
        nviol[0] += 1
        if nviol[0] <= MAX_VIOLATION_FILES or kw.get('no_input'):
            _violation(what, replay, **kw)
        elif nviol[0] == MAX_VIOLATION_FILES + 1:
            ck.log('further violations are counted but not written')
    ck.violation = capped
    ck.regen()
    ck.lean(['LbzVerif.Props.C16'],
            extra_targets=() if os.environ.get('LBZDRV') else ('lbzdrv',))
    ck.require_theorems(['LbzVerif.Props.C16.' + t for t in THEOREMS])
    exe = ck.build_lbzip2(asan=False)
    shim = os.path.join(ck.tmp, 'faultshim.so')
    r = sh(['gcc', '-O1', '-g', '-shared', '-fPIC', '-o', shim,
            os.path.join(VERIF, 'harness', 'faultshim.c'), '-ldl',
            '-lpthread'])
    if r.returncode != 0:
        ck.log('faultshim build failed:\n' + r.stdout[-2000:])
        ck.broken.append('harness build: faultshim')
    drv = ck.driver()
    if not os.path.exists(drv):
        ck.broken.append('driver missing: ' + drv)
    if exe is None or any(b.startswith(('harness build', 'driver missing'))
                          for b in ck.broken):
        ck.finish({'evaluations': 0, 'distinct_nontrivial': 0,
                   'rule': 'nothing ran'})

    rng = ck.rng
    if ck.quick:
        size, level = 250_000 + rng.randrange(0, 2000), 1
    else:
        size, level = 1_150_000 + rng.randrange(0, 20000), 1
    nthr = rng.choice([2, 3, 4])
    plain = make_input(rng, size)
    # reference compressed form from the program under test itself
    refd = os.path.join(ck.tmp, 'ref')
    os.makedirs(refd)
    with open(os.path.join(refd, 'x'), 'wb') as f:
        f.write(plain)
    p = subprocess.run([exe, '-%d' % level, '-n', str(nthr), '-c', 'x'],
                       cwd=refd, stdout=subprocess.PIPE,
                       stderr=subprocess.PIPE)
    packed = p.stdout
    if p.returncode != 0 or bz2.decompress(packed) != plain:
        ck.violation('fault-free compression does not round-trip',
                     {'argv': p.args, 'rc': p.returncode})
        ck.finish({'evaluations': 1, 'distinct_nontrivial': 0, 'rule': '-'})

    scenarios = []
    combos = [(0, 0), (1, 1), (1, 0), (0, 1)]
    for mode in 'cd':
        for keep in (0, 1):
            for force, pre in combos:
                scenarios.append(Scenario(mode, keep, force, pre, plain,
                                          packed, level, nthr))

    serial = [0]

    def nxt():
        serial[0] += 1
        return serial[0]

    # ---- fault-free runs: call counts, sequence vs model -----------------
    evaluations = 0
    seq_checked = 0
    drv_lines = []
    for sc in scenarios:
        r = run_one(ck, exe, shim, sc, None, nxt())
        evaluations += 1
        cnt = {}
        for l in r['log']:
            c = l.split()[0]
            cnt[c] = cnt.get(c, 0) + 1
        sc.counts = cnt
        sc.nreads = cnt.get('read', 0)
        sc.nwrites = cnt.get('write', 0)
        sc.base = r
        bad = dichotomy(sc, None, r)
        for b in bad:
            ck.violation('fault-free run: ' + b,
                         {'scenario': sc.key(), 'argv': r['argv'],
                          'observed': r['summary']})
        drv_lines.append('c16seq ' + sc.drv())
        drv_lines.append('c16 ' + sc.drv() + ' lstat 0 none')
    rc, replies, err = batch([drv], drv_lines)
    if len(replies) != len(drv_lines):
        ck.broken.append('driver: c16seq gave %d replies for %d requests' %
                         (len(replies), len(drv_lines)))
        replies += ['?'] * len(drv_lines)
    for n, sc in enumerate(scenarios):
        want = replies[2 * n].split(',')
        got = main_sequence(sc.base['log'])
        seq_checked += 1
        if want != got:
            ck.broken.append('correspondence: main-thread call sequence of '
                             '%s: model %s, real %s' % (sc.key(), want, got))
            ck.log('sequence mismatch', sc.key(), want, got)
        allowed = replies[2 * n + 1].split(' | ')
        if sc.base['summary'] not in allowed:
            ck.broken.append('correspondence: fault-free outcome of %s: '
                             'model %s, real %s' % (sc.key(), allowed,
                                                    sc.base['summary']))
    ck.log('scenarios: %d; input %d bytes, -n %d; reads/writes per run: %s' %
           (len(scenarios), size, nthr,
            sorted(set((s.mode, s.nreads, s.nwrites) for s in scenarios))))

    # ---- injection plan ---------------------------------------------------
    def kinds_for(cls):
        ks = []
        if cls in ('read',):
            ers = ['EIO'] if ck.quick else ['EIO', 'EINTR', 'ENOMEM']
        elif cls == 'write':
            ers = ['EIO', 'ENOSPC', 'EFBIG'] if ck.quick else \
                ['EIO', 'ENOSPC', 'EFBIG', 'EPIPE', 'EDQUOT']
        elif cls == 'unlink':
            ers = ['EPERM'] if ck.quick else ['EPERM', 'EACCES', 'EROFS']
        elif cls == 'open':
            ers = ['EACCES', 'ENOSPC'] if not ck.quick else ['ENOSPC']
        elif cls in ('lstat', 'fstat'):
            ers = ['EACCES'] if ck.quick else ['EACCES', 'EIO']
        else:
            ers = ['EIO'] if ck.quick else ['EIO', 'EPERM', 'ENOSPC']
        ks += [('errno', e, '-') for e in ers]
        for s in ('INT', 'TERM', 'KILL'):
            for w in ('before', 'after'):
                ks.append(('sig', s, w))
        return ks

    plan = []
    for sc in scenarios:
        for cls in MAIN_CLASSES:
            # one index beyond the last call too (must be a no-hit)
            for idx in range(sc.counts.get(cls, 0)):
                for k in kinds_for(cls):
                    plan.append((sc, (cls, idx) + k))
        for cls in ('read', 'write'):
            n = sc.counts.get(cls, 0)
            idxs = list(range(n))
            if ck.quick and n > 8:
                keep_ = set(range(4)) | set(range(n - 3, n))
                keep_ |= set(rng.sample(range(4, n - 3), min(3, n - 7)))
                idxs = sorted(keep_)
            for idx in idxs:
                for k in kinds_for(cls):
                    plan.append((sc, (cls, idx) + k))
    ck.log('injection runs planned: %d' % len(plan))

    reqs = []
    for sc, inj in plan:
        cls, idx, kind, arg, when = inj
        if kind == 'errno':
            reqs.append('c16 %s %s %d errno %s' % (sc.drv(), cls, idx, arg))
        else:
            reqs.append('c16 %s %s %d sig %s %s' % (sc.drv(), cls, idx, arg,
                                                    when))
    rc, allowed_sets, err = batch([drv], reqs, timeout=1200)
    if len(allowed_sets) != len(reqs):
        ck.broken.append('driver: %d replies for %d requests' %
                         (len(allowed_sets), len(reqs)))
        allowed_sets += ['?'] * len(reqs)

    def job(n):
        sc, inj = plan[n]
        return n, run_one(ck, exe, shim, sc, inj, n + 1000)

    results = [None] * len(plan)
    with concurrent.futures.ThreadPoolExecutor(max_workers=12) as ex:
        for n, r in ex.map(job, range(len(plan))):
            results[n] = r

    distinct = set()
    hist = {}
    samples = []
    nohit = 0
    mismatches = 0
    for n, (sc, inj) in enumerate(plan):
        r = results[n]
        evaluations += 1
        allowed = allowed_sets[n]
        replay = {'scenario': sc.key(), 'argv': r['argv'], 'env': r['env'],
                  'input_bytes': len(sc.inbytes),
                  'input_sha1': hashlib.sha1(sc.inbytes).hexdigest(),
                  'observed': r['summary'], 'model_allows': allowed,
                  'stderr': r['stderr'].decode('latin-1'),
                  'how': 'operand in a fresh directory (mode 0644, '
                         'pre-existing output iff pre=1), '
                         'LD_PRELOAD=harness/faultshim.so with env'}
        if r['others']:
            ck.violation('stray files left in the directory: %s' %
                         r['others'], replay)
        bad = dichotomy(sc, inj, r)
        for b in bad:
            ck.violation(b, replay)
        if not r['hit']:
            nohit += 1
            if allowed != 'nohit' and not bad:
                # model expected the call to exist
                mismatches += 1
                ck.broken.append('correspondence: %s %s: model reaches the '
                                 'injection point, real run did not' %
                                 (sc.key(), inj))
            continue
        if allowed == 'nohit':
            mismatches += 1
            ck.broken.append('correspondence: %s %s: real run reached an '
                             'injection point the model does not have' %
                             (sc.key(), inj))
            continue
        if r['summary'] not in allowed.split(' | ') and not bad:
            mismatches += 1
            if mismatches <= 10:
                ck.log('model/real disagree: %s %s: real "%s", model {%s}' %
                       (sc.key(), inj, r['summary'], allowed))
            ck.broken.append('correspondence: %s %s: real "%s" not in model '
                             'set {%s}' % (sc.key(), inj, r['summary'],
                                           allowed))
        h = (sc.key(), inj, r['summary'])
        distinct.add(h)
        hk = '%s/%s -> %s %s' % (inj[0], inj[2] if inj[2] == 'errno'
                                 else inj[3] + '-' + inj[4], r['out'],
                                 r['end'])
        hist[hk] = hist.get(hk, 0) + 1
        if len(samples) < 8 and n % max(1, len(plan) // 8) == 0:
            samples.append({'scenario': sc.key(), 'inject': list(inj),
                            'observed': r['summary'], 'model': allowed})
    if len(ck.broken) > 12:
        ck.broken[12:] = ['... %d more' % (len(ck.broken) - 12)]
    ck.log('runs %d, injection reached in %d, not reached %d, '
           'model/real mismatches %d' %
           (len(plan), len(plan) - nohit, nohit, mismatches))
    outcome_hist = {}
    for (k, inj, s) in distinct:
        key = s.split(' err=')[0]
        outcome_hist[key] = outcome_hist.get(key, 0) + 1
    ck.log('outcome distribution: ' + ', '.join(
        '%s: %d' % kv for kv in sorted(outcome_hist.items())))
    ck.assumptions += [
        'faults are injected in user space by LD_PRELOAD (faultshim.c, '
        'cross-checked against strace -e inject); SIGPIPE/SIGXFSZ generation '
        'for EPIPE/EFBIG is emulated with pthread_kill',
        'model assumes: nobody else touches the two paths during the run; '
        'stderr is writable; the unlink inside cleanup() succeeds',
        'a SIGINT/SIGTERM arriving together with the final SIGUSR2 may be '
        'lost by halt() (observed for SIGTERM: exit 0, operand done); the '
        'model allows both outcomes',
        'close(input) failing after the operand is done gives exit status 1 '
        'with the operand done (data safe); allowed, see Props.C16.'
        'status_exit1',
    ]
    ck.finish({
        'evaluations': evaluations,
        'distinct_nontrivial': len(distinct),
        'rule': 'distinct (scenario, injection point, observed outcome) '
                'where the injection point was actually reached (shim log)',
        'scenarios': len(scenarios),
        'sequence_checks': seq_checked,
        'not_reached': nohit,
        'input_bytes': size, 'workers': nthr,
        'outcomes': outcome_hist,
        'by_injection': dict(sorted(hist.items())),
        'samples': samples,
        'exhaustive': False,
    })


if __name__ == '__main__':
    main()
