#!/usr/bin/env python3
"""Confirm every seeded change under /verif/seeded in scratch worktrees
(outside /repo and /verif): the patch applies to HEAD, the tree builds, the
unedited 1111-test suite passes, the demonstration fails with the change and
passes without it.  Writes seeded/<name>/meta.json."""
import json
import os
import shutil
import subprocess
import sys
import time

VERIF = '/verif'
ROOT = '/tmp/seedconfirm'
PROP = {}
for l in open(os.path.join(VERIF, 'properties.jsonl')):
    d = json.loads(l)
    PROP[d['id']] = d['title']

NEEDS = {
 'C08f-selector-bound-max-trees': 'a crafted block declaring fewer than 6 trees with a selector MTF value in num_trees..5 (uninitialised mtf[]/tree[] then decide the decode); visible to valgrind/MSan or as acceptance of an invalid stream',
 'C14f-scan-skips-last-two-words': 'a block header whose 48-bit magic ends in word n-2 of an n-word input block (in-process; the sequential parser hides it from the output)',
 'C15f-stream-crc-halves-local-diff': 'a stored stream CRC straddling an input-block boundary exactly at its midpoint, flipped bit in the high half',
 'C17f-opathn-before-open': 'FILE operand, no -f, output name already exists AND the "skipping" diagnostic cannot be written (stderr closed or /dev/full): cleanup() unlinks the pre-existing file',
 'C19f-copy-in-slots-4': '-cdf copy of > 196612 bytes with the sink three blocks behind the source (late pipe reader)',
 'C04f-lookahead-at-buffer-end': '--sequential (or in-process split buffers); an input-chunk boundary exactly at capacity-1 encoded bytes whose last three bytes start a run, the next chunk starting with a different byte',
 'C06f-stream2-level-not-stored': 'a concatenated file whose later stream has a HIGHER level digit than the first and a block larger than first_level*100000 bytes',
 'C13f-test-mode-fastpath-leaks-outbuf': '-t/--test on an input whose decompressed size is large (concatenated bombs); -d/-dc and compression do not reach the branch',
 'C20f-sort-alphabet-skips-eob': 'a multi-table block whose last-group table counts EOB once and only a few symbols zero times (EOB then gets the deepest code)',
 'C01-finish-run-ge3': '--sequential; a run of >= 4 equal bytes crossing an N*100000-byte chunk edge while the block holds exactly capacity-1 bytes',
 'C02-finish-run-nolookahead': '--sequential; three equal bytes ending a chunk, the run continuing in the next chunk, block at capacity-1',
 'C03-seq-early-close': '--sequential and a source that stalls in the middle of a chunk (slow pipe)',
 'C04-finish-run-lt4': '--sequential; a run with 1-2 bytes before a chunk edge and exactly one free byte in the block',
 'C05-emit-case3-break': 'crafted block ending in four equal bytes without count AND an output-buffer boundary inside those four bytes',
 'C06-selector-bound-18000': 'a completely full 900000-byte block without zero runs (18001 groups), which bzip2 itself never produces',
 'C07-global-bs100k': 'a concatenated file whose later stream declares a smaller level and holds a block that only fits the first stream\'s level',
 'C08-fastpath-31': 'a group of fifty 20-bit codes starting exactly 31 words before the end of an input buffer with < 20 bits buffered',
 'C09-emit-state5-as-1': 'an output buffer boundary exactly after a maximal 255-repeat run that is followed by more of the same byte',
 'C10-advance-before-reject': 'planted block header inside coded data; the spurious job still running when the parser passes it, and the parser waiting for a work unit',
 'C11-emit-thresh-ge': 'a stalled master block plus >= 16n-1 tiny speculative blocks inside the input window',
 'C12-unlocked-parsing-done': 'trailing data reaching into a further input block that is still being read when the parser finishes (slow pipe); visible to ThreadSanitizer only',
 'C13-emit-frees-tt-only': 'valid streams containing many spurious block headers, >= 2 workers; memory grows 58 KB per failed speculative job',
 'C14-scan-tail-trim': 'a block header whose 80 bits end in the last word of an input block (in-process only; output never changes)',
 'C15-stored-crc-local': 'an input-buffer boundary between the two 16-bit halves of a stored CRC whose upper half is zero (empty stream in a concatenation)',
 'C16-opathn-freed-late': 'a failure after the output is complete: close() of the input fails, or stderr breaks on the -v ratio line',
 'C17-empty-stem-suffix': 'an operand whose base name is exactly .bz2/.tbz/.tbz2/.tz2',
 'C18-request-close-reset-moved': '-cdf with a valid .bz2 operand followed by a non-bzip2 operand in one invocation',
 'C19-in-slots-3': '-cdf copy of > 131076 bytes and a reader/writer interleaving that queues a third buffer',
 'C20-package-merge-leaf-index': 'a used table over a small alphabet with skewed counts where the third-rarest symbol outweighs the second-rarest',
 'C21-xread-partial-on-error': 'a read() failure that is not the first read into a buffer',
 'C03b-encoder-pool-stale-cmap': 'a recycled encoder: >= 2 blocks in one run where an earlier block on the same encoder used bytes the later one lacks; which encoder is recycled depends on the schedule, so output varies with -n',
 'C05b-fastpath-run-guard-shift': 'a crafted RUNA/RUNB sequence of > 32 symbols whose accumulated length wraps modulo 2^32, inside retrieve()\'s fast path (>= 128 input bytes left)',
 'C09b-fastpath-31-granul': 'a group of fifty 20-bit codes starting exactly 31 words before the end of an input buffer; only with an input-buffer size that puts the boundary there',
 'C10b-emit-failfast-bogus': 'a planted block header inside coded data whose speculative decode fails while the output is waiting for the genuine block at a smaller position',
 'C11b-reorder-eof-instead-of-parsing-done': 'trailing garbage after the last stream that spans input blocks: the reorder task runs out of order before the parser has finished',
 'C16b-bailout-unblock-before-cleanup': 'a pending blocked SIGPIPE/SIGXFSZ at the time of a fatal error: the signal kills the process before cleanup() unlinks the partial output',
 'C18b-warned-overwritten': 'a warning on an earlier operand followed by any later non-fatal message (e.g. -v ratio line) for a good operand',
 'C21b-uninit-after-usr2': 'a write failure late in the run; visible as use of freed state / lost diagnostics only under a specific main/primary thread interleaving',
 'C01c-parse-crc-wiped-on-reentry': 'an input-buffer edge between the two 16-bit halves of a block\'s stored CRC: block header 8-9 bytes before file offset 4 + k*262144',
 'C02c-pad-with-dummy-selectors': 'level 9 and a completely full 900000-byte block of incompressible data with >= 3 padding bits',
 'C04c-collect-capacity-min-input': 'default mode; a short last piece in which runs of exactly four outweigh longer runs',
 'C06c-emit-resume-state-2': 'a 900000-byte output-buffer edge exactly after the third byte of a run of >= 4 equal bytes',
 'C07c-bwtidx-bound-off-by-one': 'origPtr exactly equal to the block length, with CRCs matching the rotation the decoder then emits',
 'C08c-stale-scan-requeue': '>= 2 workers, a scanner overtaken by the master inside its own chunk, an idle worker taking the stale job before the next advance()',
 'C12c-select-task-after-init-io': 'the reader delivering its first block before the first pass through sched_mutex; visible to ThreadSanitizer only',
 'C13c-scan-prealloc-leak': 'the parser overtaking a scanner still inside scan(); very many tiny blocks; >= 2 workers',
 'C14c-scan-skip-live-swap': 're-scan with buffered bits (live > 0), non-zero skip, and a header within 32 bits after the resume point',
 'C15c-stream-crc-zero-lenient': 'a stream whose combined CRC has Hamming weight 1, and the flip of exactly that bit',
 'C17c-fchmod-skipped-special-bits': 'a regular-file operand whose mode has setuid, setgid or sticky set',
 'C19c-request-close-not-reset-in-copy': 'one -cdf invocation in which a non-bzip2 operand follows a decompressed one',
 'C20c-sort-alphabet-skips-last': 'a multi-table block whose last group is EOB alone in its table with zero-frequency symbols before it',
 'C22c-bzcat-stdout-deferred': 'invoked as bzcat/lbzcat with a final -z/--compress and a FILE operand',
 'C05d-eof-missing-bits-vs-bytes': 'a stream cut just before its final zero byte(s), truncated length 1 or 2 mod 4',
 'C10d-size-test-against-parser-level': 'concatenated streams of different declared levels, >= 2 workers, a speculative retrieve finishing before the parser reaches the later stream header',
 'C11d-unord-endpos-not-refreshed': 'a compressed block longer than the input window, exactly 2 workers, the speculative job parked at the tail before the parser reaches its block',
 'C16d-cli-sti-around-work-only': 'SIGINT/SIGTERM landing between open(O_EXCL) of the output and work(), or at fchown/fchmod/futimens/close/unlink',
 'C21d-sigusr1-inherited-blocked': 'the parent execs lbzip2 with SIGUSR1 blocked, and a read/write failure occurs in a sub-thread',
 'C03e-static-len-pack-shared': '>= 2 workers and >= 2 blocks whose prefix-coding phases overlap in time',
 'C09e-parse-crc-half-on-stack': 'an input-buffer edge between the two halves of a stored block CRC and a reader that is behind the parser at that moment (slow/fragmented pipe)',
 'C12e-static-rand-table': 'a file with >= 2 randomised blocks decoded concurrently by >= 2 workers; visible to ThreadSanitizer only',
 'C18e-sti-skipped-on-output-skip': 'several FILE operands, one skipped on the output side (existing output without -f) followed by a processed one',
 'C22e-short-s-falls-into-u': 'the short option -s when compressing an input longer than one block that contains runs',
 'C22-env-first-only': 'two of LBZIP2/BZIP2/BZIP set at once, the later one carrying a relevant option',
}


def sh(cmd, cwd=None, timeout=3600, env=None):
    return subprocess.run(cmd, cwd=cwd, shell=isinstance(cmd, str),
                          stdout=subprocess.PIPE, stderr=subprocess.STDOUT,
                          text=True, timeout=timeout, env=env)


def build(tree):
    r = sh('cmake -S . -B _b -G Ninja -DCMAKE_BUILD_TYPE=RelWithDebInfo '
           '>/dev/null && cmake --build _b 2>&1 | tail -3', cwd=tree)
    return r.returncode == 0 and os.path.exists(os.path.join(tree, '_b',
                                                            'lbzip2')), r.stdout


def main():
    only = sys.argv[1:]
    shutil.rmtree(ROOT, ignore_errors=True)
    os.makedirs(ROOT)
    head = sh('git -C /repo rev-parse --short HEAD').stdout.strip()
    pristine = os.path.join(ROOT, 'pristine')
    sh('git -C /repo worktree add -q --detach %s HEAD' % pristine)
    ok, out = build(pristine)
    assert ok, out
    for name in sorted(os.listdir(os.path.join(VERIF, 'seeded'))):
        if only and name not in only:
            continue
        d = os.path.join(VERIF, 'seeded', name)
        if not os.path.exists(os.path.join(d, 'patch.diff')):
            continue
        t0 = time.time()
        wt = os.path.join(ROOT, name)
        sh('git -C /repo worktree add -q --detach %s HEAD' % wt)
        meta = {'property': name.split('-')[0],
                'property_title': PROP.get(name.split('-')[0]),
                'needs_to_manifest': NEEDS.get(name, ''),
                'repo_head': head, 'confirmed_by': 'tools/seedconfirm.py'}
        r = sh('git apply %s' % os.path.join(d, 'patch.diff'), cwd=wt)
        meta['patch_applies'] = r.returncode == 0
        ok, out = build(wt)
        meta['builds'] = ok
        if ok:
            r = sh('ctest --test-dir _b -j16 --timeout 900 2>&1 | tail -4',
                   cwd=wt)
            line = [l for l in r.stdout.splitlines() if 'tests passed' in l]
            meta['ctest'] = line[0].strip() if line else r.stdout[-200:]
            meta['tests_pass'] = bool(line) and line[0].startswith('100%')
        demo = None
        for c in ('demo.py', 'demo.sh'):
            if os.path.exists(os.path.join(d, c)):
                demo = c
        runs = {}
        if demo and ok:
            interp = ['python3'] if demo.endswith('.py') else ['sh']
            dd = os.path.join(ROOT, name + '-demo')
            shutil.copytree(d, dd)
            for how in ('binary', 'tree'):
                argc = os.path.join(wt, '_b', 'lbzip2') if how == 'binary' \
                    else wt
                argp = os.path.join(pristine, '_b', 'lbzip2') \
                    if how == 'binary' else pristine
                rp = sh(interp + [demo, argp], cwd=dd, timeout=1800)
                rc = sh(interp + [demo, argc], cwd=dd, timeout=1800)
                runs[how] = {'pristine_exit': rp.returncode,
                             'changed_exit': rc.returncode,
                             'changed_tail': rc.stdout[-300:]}
                if rp.returncode == 0 and rc.returncode != 0:
                    break
            shutil.rmtree(dd, ignore_errors=True)
        meta['demo'] = demo
        meta['demo_runs'] = runs
        meta['demo_confirms'] = any(v['pristine_exit'] == 0 and
                                    v['changed_exit'] != 0
                                    for v in runs.values())
        meta['wall_s'] = round(time.time() - t0, 1)
        old = {}
        mp = os.path.join(d, 'meta.json')
        if os.path.exists(mp):
            old = json.load(open(mp))
        old.update(meta)
        json.dump(old, open(mp, 'w'), indent=1)
        print(name, 'applies', meta['patch_applies'], 'builds', ok,
              'tests', meta.get('tests_pass'), 'demo', meta['demo_confirms'],
              '%.0fs' % meta['wall_s'], flush=True)
        sh('git -C /repo worktree remove --force %s' % wt)
    sh('git -C /repo worktree remove --force %s' % pristine)
    sh('git -C /repo worktree prune')
    shutil.rmtree(ROOT, ignore_errors=True)


if __name__ == '__main__':
    main()
