#!/bin/sh
# usage: tools/seedtest.sh <seeded-dir-name> <check ids...>
# applies /verif/seeded/<name>/patch.diff to /repo, runs the checks, reverts.
name=$1; shift
cd /verif || exit 2
git -C /repo diff --quiet || { echo "/repo not clean"; exit 2; }
git -C /repo apply /verif/seeded/$name/patch.diff || { echo "patch does not apply"; exit 2; }
mkdir -p .cache/seedlogs
for id in "$@"; do
  s=$(date +%s)
  VERIF_SEED=${VERIF_SEED:-1} ./check $id > .cache/seedlogs/$name-$id.log 2>&1
  rc=$?
  echo "$name $id rc=$rc $(( $(date +%s) - s ))s :: $(grep -m1 '^VIOLATION' .cache/seedlogs/$name-$id.log | cut -c1-160)"
done
git -C /repo checkout -- .
# regenerate Gen from the clean tree
python3 tools/extract.py > /dev/null
