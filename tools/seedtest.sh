#!/bin/sh
# usage: tools/seedtest.sh <seeded-dir-name> <check ids...>
# Runs the named checks against a scratch worktree of /repo with
# seeded/<name>/patch.diff applied, using a private copy of the Lean project
# (so neither /repo, nor the shared Gen files, nor evidence/ are touched).
# Equivalent to: git -C /repo apply <patch>; ./check ...; git -C /repo checkout -- .
name=$1; shift
R=/tmp/seedrun-$$
mkdir -p $R
cd /verif || exit 2
git -C /repo worktree add -q --detach $R/repo HEAD || exit 2
git -C $R/repo apply /verif/seeded/$name/patch.diff || { echo "$name: patch does not apply to HEAD"; git -C /repo worktree remove --force $R/repo; rm -rf $R; exit 2; }
cp -a /verif/lean $R/lean
rm -f $R/lean/.build.lock
mkdir -p .cache/seedlogs $R/evidence
for id in "$@"; do
  s=$(date +%s)
  LBZ_REPO=$R/repo LBZ_LEAN=$R/lean LBZ_EVIDENCE_DIR=$R/evidence VERIF_SEED=${VERIF_SEED:-1} ./check $id > .cache/seedlogs/$name-$id.log 2>&1
  rc=$?
  echo "$name $id rc=$rc $(( $(date +%s) - s ))s :: $(grep -m1 '^VIOLATION' .cache/seedlogs/$name-$id.log | cut -c1-160)"
done
git -C /repo worktree remove --force $R/repo
git -C /repo worktree prune
rm -rf $R
