#!/bin/sh
# run every registered check (quick tier) and summarise
cd "$(dirname "$0")/.." || exit 2
L=.cache/logs-${1:-quick}; mkdir -p $L
for id in $(python3 -c "import json;print(' '.join(c['property_id'] for c in json.load(open('MANIFEST.json'))['checks']))"); do
  s=$(date +%s)
  ./check $id --tier ${1:-quick} > $L/$id.log 2>&1
  rc=$?
  e=$(date +%s)
  echo "$id rc=$rc $((e-s))s $(grep -c '^VIOLATION' $L/$id.log) violations $(grep -c '^KNOWN-FINDING' $L/$id.log) known"
done
