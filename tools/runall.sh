#!/bin/sh
# run every registered check (quick tier) and summarise
cd "$(dirname "$0")/.." || exit 2
mkdir -p .cache/logs
for id in $(python3 -c "import json;print(' '.join(c['property_id'] for c in json.load(open('MANIFEST.json'))['checks']))"); do
  s=$(date +%s)
  ./check $id --tier ${1:-quick} > .cache/logs/$id.log 2>&1
  rc=$?
  e=$(date +%s)
  echo "$id rc=$rc $((e-s))s $(grep -c '^VIOLATION' .cache/logs/$id.log) violations $(grep -c '^KNOWN-FINDING' .cache/logs/$id.log) known"
done
