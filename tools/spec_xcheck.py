#!/usr/bin/env python3
"""Cross-check of the Lean oracle `Spec.Bzip2.decodeFile` against libbz2.

The reference side decodes every stream with libbz2 (Python `bz2`, one
`BZ2Decompressor` per stream) and applies the trailing-data rule of C05 on
top (after a complete stream the rest is ignored unless it starts with a full
"BZh1".."BZh9" header, in which case it must be a further valid stream).

Campaigns
  T  tables: the CRC table and the randomisation table the Lean side uses
     (taken from lbzip2's source by the translator) equal libbz2's
     BZ2_crc32Table / BZ2_rNums.
  a  every /repo/tests/*.bz2 and /repo/tests/suite/manual-expand/*.bz2.
  b  bz2.compress of generated inputs at levels 1..9 (+ concatenations,
     trailing data, crafted randomised blocks).
  g  a small independent bzip2 encoder inside this script with every degree
     of freedom open (random complete tables incl. 20-bit codes, 2..6 tables,
     zig-zag delta codes, surplus selectors up to 32767, unused incomplete /
     oversubscribed tables, randomised blocks, blocks at all bit offsets) and
     one crafted defect per case (origPtr, bitmap, nGroups, selectors, start
     lengths, excursions out of 1..20, missing EOB, CRCs, magics, capacity).
  i  the inspector: verdicts on the producer-side rules of C02 and every
     reported field against what the script's encoder chose.
  c  single-bit flips and truncations of small valid files.

Rule: Spec accepts  =>  libbz2 accepts with identical bytes.   (hard failure)
      Spec rejects, libbz2 accepts: allowed only for the two documented
      strictness cases (`used-table-not-complete`, `missing-count`); listed.
      Anything else is a disagreement -> exit 1.

usage: spec_xcheck.py [--tier quick|thorough] [--only T,a,b,g,i,c] [-j N]
env:   LBZDRV (driver binary), VERIF_SEED, LBZ_REPO
"""
import bz2
import concurrent.futures as cf
import ctypes
import ctypes.util
import glob
import json
import os
import random
import subprocess
import sys
import threading
import time

HERE = os.path.dirname(os.path.abspath(__file__))
VERIF = os.path.dirname(HERE)
REPO = os.environ.get('LBZ_REPO', '/repo')
BIN = os.path.join(VERIF, 'lean', '.lake', 'build', 'bin')

DOCUMENTED = {'used-table-not-complete', 'missing-count'}

# ---------------------------------------------------------------- CRC-32/bzip2
_REV8 = bytes(int('{:08b}'.format(i)[::-1], 2) for i in range(256))


def crc_bz(data):
    """CRC-32/BZIP2 through zlib's reflected CRC-32 (bit-reverse in and out)."""
    import zlib
    c = zlib.crc32(bytes(data).translate(_REV8)) & 0xFFFFFFFF
    return int('{:032b}'.format(c)[::-1], 2)


# --------------------------------------------------------------------- driver
# The driver answers one line per request but only flushes at exit, so it is
# used in batch mode: a batch of request lines in, the same number of reply
# lines out.  Batches run in parallel in fresh driver processes.
DRV = None
NTHREADS = 8


def ask_batch(lines):
    if not lines:
        return []
    r = subprocess.run([DRV], input=('\n'.join(lines) + '\n').encode(),
                       stdout=subprocess.PIPE, timeout=3600)
    out = r.stdout.decode().split('\n')
    if out and out[-1] == '':
        out.pop()
    if len(out) != len(lines):
        raise RuntimeError('driver returned %d replies to %d requests (rc %s); first request %s'
                           % (len(out), len(lines), r.returncode, lines[0][:80]))
    return out


def ask_all(lines, per_batch=40, max_chars=1 << 20):
    """Replies to `lines`, in order; work split into small batches."""
    batches, cur, size = [], [], 0
    for i, l in enumerate(lines):
        cur.append(i)
        size += len(l)
        if len(cur) >= per_batch or size >= max_chars:
            batches.append(cur)
            cur, size = [], 0
    if cur:
        batches.append(cur)
    res = [None] * len(lines)

    def run(idx):
        for i, r in zip(idx, ask_batch([lines[i] for i in idx])):
            res[i] = r
    with cf.ThreadPoolExecutor(max_workers=NTHREADS) as ex:
        list(ex.map(run, batches))
    return res


def find_driver():
    global DRV
    cands = [os.environ.get('LBZDRV'), os.path.join(BIN, 'lbzdrv'),
             os.path.join(BIN, 'lbzdrv-spec')]
    for c in cands:
        if c and os.path.exists(c):
            try:
                DRV = c
                if ask_batch(['crc32 -', 'decodesum -']) == ['0', 'err empty']:
                    return c
            except Exception:
                pass
    DRV = None
    return None


def hx(b):
    return bytes(b).hex() if b else '-'


# ------------------------------------------------------------------ reference
def is_header(b):
    return len(b) >= 4 and b[:3] == b'BZh' and 0x31 <= b[3] <= 0x39


def ref_decode(data):
    """libbz2 per stream + the C05 trailing rule.  ('ok', bytes) | ('err', why)"""
    if not data:
        return ('err', 'empty')
    if not is_header(data):
        return ('err', 'bad-magic')
    out = []
    while True:
        d = bz2.BZ2Decompressor()
        try:
            o = d.decompress(data)
        except (OSError, ValueError) as e:
            return ('err', 'libbz2: ' + str(e))
        if not d.eof:
            return ('err', 'libbz2: truncated')
        out.append(o)
        data = d.unused_data
        if is_header(data):
            continue
        return ('ok', b''.join(out))


# ------------------------------------------------------------------- compare
class Stats:
    def __init__(self):
        self.lock = threading.Lock()
        self.n = 0
        self.both_ok = 0
        self.both_rej = 0
        self.documented = []      # (label, reason)
        self.bad = []             # (label, what)
        self.reasons = {}
        self.full_bytes = 0

    def add(self, **kw):
        with self.lock:
            for k, v in kw.items():
                setattr(self, k, getattr(self, k) + v)


def compare_all(st, jobs, per_batch=40):
    """jobs: list of (label, data[, expect]); expect: None | 'ok' | 'err' = what
    BOTH sides must say (generated cases); 'strict' = the Spec must reject for
    one of the documented strictness reasons, libbz2 may do either."""
    jobs = [(j[0], j[1], j[2] if len(j) > 2 else None) for j in jobs]
    replies = ask_all(['decodesum ' + hx(d) for (_, d, _) in jobs], per_batch)
    with cf.ThreadPoolExecutor(max_workers=NTHREADS) as ex:
        refs = list(ex.map(lambda j: ref_decode(j[1]), jobs))
    second = []
    for k, ((label, data, expect), r, ref) in enumerate(zip(jobs, replies, refs)):
        st.n += 1
        problem = None
        if r.startswith('ok '):
            _, size, crc = r.split()
            if ref[0] != 'ok':
                problem = 'Spec accepts (%s bytes) but libbz2 rejects: %s' % (size, ref[1])
            elif int(size) != len(ref[1]) or int(crc) != crc_bz(ref[1]):
                problem = 'both accept, different bytes (spec %s/%s, libbz2 %d/%d)' % (
                    size, crc, len(ref[1]), crc_bz(ref[1]))
            else:
                st.both_ok += 1
                if len(ref[1]) <= 65536:
                    second.append(k)
            if expect in ('err', 'strict') and not problem:
                problem = 'expected rejection (%s), both accept' % expect
        elif r.startswith('err '):
            why = r[4:]
            st.reasons[why] = st.reasons.get(why, 0) + 1
            if ref[0] == 'ok':
                if why in DOCUMENTED:
                    st.documented.append((label, why))
                else:
                    problem = 'Spec rejects (%s) but libbz2 accepts %d bytes' % (
                        why, len(ref[1]))
            else:
                st.both_rej += 1
            if expect == 'ok' and not problem:
                problem = 'expected acceptance, Spec says %s, libbz2 %s' % (why, ref[1])
            if expect == 'strict' and why not in DOCUMENTED and not problem:
                problem = 'expected a documented-strictness rejection, Spec says %s' % why
            if expect == 'err' and ref[0] == 'ok' and not problem:
                problem = 'expected rejection by both, libbz2 accepts (Spec: %s)' % why
        else:
            problem = 'driver answered: ' + r[:60]
        if problem:
            st.bad.append((label, problem, hx(data) if len(data) <= 4096 else
                           '<%d bytes>' % len(data)))
    # byte-exact comparison through `decode` for the smaller outputs
    rep2 = ask_all(['decode ' + hx(jobs[k][1]) for k in second])
    for k, r2 in zip(second, rep2):
        st.full_bytes += 1
        if r2 != 'ok ' + hx(refs[k][1]):
            st.bad.append((jobs[k][0], 'decode bytes differ from libbz2', hx(jobs[k][1])))


# ------------------------------------------------------------ input families
def words_text(rng, n):
    words = [bytes(rng.choices(b'abcdefghijklmnopqrstuvwxyz', k=rng.randint(2, 9)))
             for _ in range(300)]
    out = bytearray()
    while len(out) < n:
        out += rng.choice(words) + rng.choice([b' ', b' ', b' ', b'.\n', b', '])
    return bytes(out[:n])


def families(rng, thorough):
    f = []
    f.append(('empty', b''))
    f.append(('one', b'x'))
    f.append(('two', b'xy'))
    for k in (3, 4, 5, 255, 256, 258, 259, 260, 263, 518, 1000):
        f.append(('run%d' % k, b'a' * k))
        f.append(('run%d-embedded' % k, b'xy' + b'a' * k + b'yz' + b'b' * k))
    f.append(('run4-at-end', b'hello' + b'z' * 4))
    f.append(('run4s', b''.join(bytes([65 + i % 7]) * 4 for i in range(400))))
    f.append(('all256', bytes(range(256))))
    f.append(('all256x3', bytes(range(256)) * 3 + bytes(range(255, -1, -1))))
    f.append(('ff-run', b'\xff' * 300))
    f.append(('zeros100k', b'\0' * 100000))
    for n in (10, 100, 1000, 5000):
        f.append(('rand%d' % n, rng.randbytes(n)))
        f.append(('two-sym%d' % n, bytes(rng.choice(b'ab') for _ in range(n))))
        f.append(('text%d' % n, words_text(rng, n)))
    f.append(('fib', _fib(4000)))
    f.append(('skew', bytes(min(255, int(rng.expovariate(0.05))) for _ in range(4000))))
    big = [('rand120k', rng.randbytes(120000)), ('text250k', words_text(rng, 250000))]
    if thorough:
        big += [('rand950k', rng.randbytes(950000)), ('text2M', words_text(rng, 2000000)),
                ('two-sym300k', bytes(rng.choice(b'ab') for _ in range(300000)))]
    return f, big


def _fib(n):
    a, b = b'a', b'ab'
    while len(b) < n:
        a, b = b, b + a
    return b[:n]


# ------------------------------------------------- crafted randomised blocks
def no_run4(b):
    r = 1
    for i in range(1, len(b)):
        r = r + 1 if b[i] == b[i - 1] else 1
        if r >= 4:
            return False
    return True


def rand_positions(rnums, n):
    """positions flipped by bzip2's BZ_RAND_* macros for a block of n bytes"""
    pos, i, j = [], 0, rnums[0] - 2
    while j < n:
        pos.append(j)
        i = (i + 1) % 512
        j += rnums[i]
    return pos


def craft_randomised(rng, rnums, n, level=9):
    """A valid single-block stream with the rand bit set (made from libbz2's
    encoder output by setting the bit and fixing both CRCs).  Returns
    (stream, plaintext)."""
    # neighbours differ in more than bit 0, so neither the block nor its
    # de-randomised form contains a run (the first RLE layer is the identity)
    x = bytearray()
    while len(x) < n:
        b = rng.choice(b'abcdefghijklmnop')
        if not x or (x[-1] >> 1) != (b >> 1):
            x.append(b)
    p = bytearray(x)
    for j in rand_positions(rnums, n):
        p[j] ^= 1
    if not (no_run4(x) and no_run4(p)):
        return None
    c = bytearray(bz2.compress(bytes(x), level))
    # stream: BZh9 | magic48 | crc32 | rand1 ...
    assert c[4:10] == bytes.fromhex('314159265359')
    crc = crc_bz(p)
    c[10:14] = crc.to_bytes(4, 'big')
    c[14] |= 0x80
    # trailer: eos48 crc32 pad(0..7)
    v = int.from_bytes(c, 'big')
    for pad in range(8):
        if (v >> (pad + 32)) & ((1 << 48) - 1) == 0x177245385090:
            v &= ~(0xFFFFFFFF << pad)
            v |= crc << pad            # single block: combined = block crc
            break
    else:
        return None
    return v.to_bytes(len(c), 'big'), bytes(p)


# ------------------------------------------- structured stream generator (g)
# A small independent bzip2 ENCODER with every degree of freedom of the format
# left to the caller / a random source, used to reach streams that libbz2's
# own encoder never writes (arbitrary tables, zig-zag delta codes, surplus
# selectors, unused incomplete tables, blocks at any bit offset, randomised
# blocks ...) and single crafted defects.
class BitW:
    def __init__(self):
        self.buf = bytearray()
        self.acc = 0
        self.nacc = 0
        self.n = 0

    def put(self, nbits, val):
        assert 0 <= val < (1 << nbits)
        self.acc = (self.acc << nbits) | val
        self.nacc += nbits
        self.n += nbits
        while self.nacc >= 8:
            self.nacc -= 8
            self.buf.append(self.acc >> self.nacc)
            self.acc &= (1 << self.nacc) - 1

    def pad(self):
        self.put((-self.n) % 8, 0)

    def bytes(self):
        assert self.nacc == 0
        return bytes(self.buf)


def rle1(data, maxrun=259):
    """first run-length layer; runs of 4..maxrun become 4 bytes + count
    (lbzip2 uses counts up to 255, libbz2's encoder stops at run length 255)"""
    out, i = bytearray(), 0
    while i < len(data):
        j = i
        while j < len(data) and data[j] == data[i] and j - i < maxrun:
            j += 1
        k = j - i
        if k >= 4:
            out += bytes([data[i]]) * 4 + bytes([k - 4])
        else:
            out += bytes([data[i]]) * k
        i = j
    return bytes(out)


def bwt(x):
    """rotation sort; keys are prefixes of the rotations, lengthened until they
    separate all rotations (or cover them entirely)"""
    n = len(x)
    xx = x + x
    k = 64
    while True:
        k = min(k, n)
        rot = sorted(range(n), key=lambda i: xx[i:i + k])
        if k == n or all(xx[rot[j]:rot[j] + k] != xx[rot[j + 1]:rot[j + 1] + k]
                         for j in range(n - 1)):
            break
        k *= 4
    return bytes(xx[i + n - 1] for i in rot), rot.index(0)


def mtf_rle2(l):
    used = sorted(set(l))
    m = list(used)
    out, run = [], 0

    def flush():
        nonlocal run
        while run > 0:            # bijective base 2, least significant first
            if run & 1:
                out.append(0)
                run = (run - 1) >> 1
            else:
                out.append(1)
                run = (run - 2) >> 1
    for b in l:
        i = m.index(b)
        if i == 0:
            run += 1
        else:
            flush()
            out.append(i + 1)
            m.insert(0, m.pop(i))
    flush()
    out.append(len(used) + 1)     # EOB
    return used, out


def random_complete_lengths(rng, n, deep=False):
    leaves = [0]
    while len(leaves) < n:
        c = [i for i, d in enumerate(leaves) if d < 20]
        i = max(c, key=lambda i: leaves[i]) if deep and rng.random() < 0.8 else rng.choice(c)
        d = leaves.pop(i)
        leaves += [d + 1, d + 1]
    rng.shuffle(leaves)
    return leaves


def canonical(lens):
    codes, code, prev = {}, 0, 0
    for l, s in sorted((l, s) for s, l in enumerate(lens)):
        code <<= (l - prev)
        codes[s] = (l, code)
        code += 1
        prev = l
    return codes


def delta_path(rng, cur, target, zig):
    """bit pairs moving cur -> target inside 1..20, with optional detours"""
    ops = []
    while True:
        if zig and rng.random() < 0.3:
            step = rng.choice([1, -1])
            if 1 <= cur + step <= 20:
                ops.append(step)
                cur += step
                continue
        if cur == target:
            return ops
        step = 1 if target > cur else -1
        ops.append(step)
        cur += step


def enc_block(w, rng, block, opt, info=None):
    """block = bytes of the first RLE layer (what BWT sees).  opt: dict of
    choices/defects.  Writes magic..EOB; returns the CRC field written."""
    plain = opt['plain']
    w.n_at_start = w.n
    l, idx = bwt(block)
    used, syms = mtf_rle2(l)
    alpha = len(used) + 2
    w.put(48, opt.get('magic', 0x314159265359))
    crc = opt.get('crc', crc_bz(plain))
    w.put(32, crc)
    w.put(1, 1 if opt.get('rand') else 0)
    w.put(24, opt.get('origPtr', idx))
    rows = [0] * 16
    for b in (used if not opt.get('empty_bitmap') else []):
        rows[b >> 4] |= 0x8000 >> (b & 15)
    big = 0
    for i in range(16):
        if rows[i]:
            big |= 0x8000 >> i
    w.put(16, big)
    for i in range(16):
        if rows[i]:
            w.put(16, rows[i])
    ng = opt.get('nGroups', rng.randint(2, 6))
    w.put(3, opt.get('nGroups_field', ng))
    need = (len(syms) + 49) // 50
    # tables
    tables = []
    for t in range(ng):
        tables.append(random_complete_lengths(rng, alpha, deep=opt.get('deep', False)))
    good = list(range(ng))
    bad_t = opt.get('bad_table')          # (kind, used?)
    if bad_t:
        kind, is_used = bad_t
        t = rng.randrange(ng)
        s = rng.randrange(alpha)
        if kind == 'incomplete':
            if tables[t][s] == 20:
                s = min(range(alpha), key=lambda i: tables[t][i])
            tables[t][s] += 1
        else:
            if tables[t][s] == 1:
                s = max(range(alpha), key=lambda i: tables[t][i])
            tables[t][s] -= 1
        if is_used:
            good = [t]
        else:
            good = [g for g in good if g != t]
    sels = [rng.choice(good) for _ in range(need)]
    if opt.get('few_selectors') and need > 1:
        sels = sels[:-1]
    surplus = opt.get('surplus', 0)
    sels_all = sels + [rng.randrange(ng) for _ in range(surplus)]
    nsel_field = opt.get('nSelectors_field', len(sels_all))
    w.put(15, nsel_field)
    m = list(range(ng))
    for k, t in enumerate(sels_all):
        j = m.index(t)
        bs = opt.get('bad_selector')
        if bs is not None and bs % len(sels_all) == k:
            j = ng
        w.put(j + 1, ((1 << j) - 1) << 1)
        m.insert(0, m.pop(m.index(t)))
    for t in range(ng):
        lens = tables[t]
        start = opt.get('start_len', {}).get(t, rng.randint(1, 20))
        w.put(5, start)
        cur = start        # an out-of-range start is walked back into range by the deltas
        exc = opt.get('excursion')       # (table, symbol, kind)
        for s_i, target in enumerate(lens):
            if exc and exc[0] == t and exc[1] == s_i:
                # leave 1..20 and come straight back
                if exc[2] == 'hi':
                    for st in delta_path(rng, cur, 20, False):
                        w.put(2, 2 if st > 0 else 3)
                    w.put(2, 2)
                    w.put(2, 3)
                    cur = 20
                else:
                    for st in delta_path(rng, cur, 1, False):
                        w.put(2, 2 if st > 0 else 3)
                    w.put(2, 3)
                    w.put(2, 2)
                    cur = 1
            for st in delta_path(rng, cur, target, opt.get('zig', False)):
                w.put(2, 2 if st > 0 else 3)
            w.put(1, 0)
            cur = target
    codes = [canonical(t) for t in tables]
    if info is not None:
        fr = [[0] * alpha for _ in range(ng)]
        for i, sy in enumerate(syms):
            if i // 50 < len(sels_all):
                fr[sels_all[i // 50]][sy] += 1
        info.update(origPtr=idx, nGroups=ng, tables=[list(t) for t in tables],
                    selectors=list(sels_all), nSelectorsUsed=need, nSyms=len(syms),
                    nblock=len(block), size=len(plain), crc=crc, alphaSize=alpha,
                    rand=1 if opt.get('rand') else 0, freqs=fr, start=w.n_at_start)
    if opt.get('no_eob'):
        syms = syms[:-1]
    for i, s in enumerate(syms):
        g = i // 50
        t = sels[g] if g < len(sels) else sels_all[g] if g < len(sels_all) else 0
        ln, c = codes[t][s]
        w.put(ln, c & ((1 << ln) - 1))    # (wraps only for oversubscribed tables)
    return crc


def combine_crcs(cs):
    c = 0
    for x in cs:
        c = (((c << 1) | (c >> 31)) & 0xFFFFFFFF) ^ x
    return c


def enc_stream(w, rng, level, blocks, opt=None, infos=None):
    """blocks: list of (plain, block_bytes, block_opt)."""
    opt = opt or {}
    w.put(32, 0x425A6830 + level)
    crcs = []
    for plain, blk, bo in blocks:
        bo = dict(bo)
        bo['plain'] = plain
        info = {}
        crcs.append(enc_block(w, rng, blk, bo, info))
        info['end'] = w.n
        if infos is not None:
            infos.append(info)
    w.put(48, opt.get('eos', 0x177245385090))
    w.put(32, opt.get('stream_crc', combine_crcs(crcs)))
    if opt.get('pad_ones'):
        k = (-w.n) % 8
        w.put(k, (1 << k) - 1)
    else:
        w.pad()


def gen_plain(rng, n):
    kind = rng.randrange(5)
    if kind == 0:
        return rng.randbytes(n)
    if kind == 1:
        return bytes(rng.choice(b'ab') for _ in range(n))
    if kind == 2:
        out = bytearray()
        while len(out) < n:
            out += bytes([rng.randrange(256)]) * rng.choice([1, 2, 3, 4, 5, 7, 30, 259, 260, 300])
        return bytes(out[:n])
    if kind == 3:
        return words_text(rng, n)
    return bytes([rng.randrange(256)]) * n


def randomise(rnums, blk):
    b = bytearray(blk)
    for j in rand_positions(rnums, len(b)):
        b[j] ^= 1
    return bytes(b)


def gen_cases(rng, rnums, count):
    """-> list of (label, data, expect) with expect in ok / err / strict"""
    cases = []

    def one_stream(label, expect, level=None, nblocks=None, bopt=None, sopt=None,
                   sizes=None, tail=b'', prefix=b'', plain_fn=None):
        w = BitW()
        level = level or rng.randint(1, 9)
        blocks = []
        for _ in range(nblocks or rng.randint(1, 3)):
            plain = (plain_fn or gen_plain)(rng, rng.choice(sizes or [1, 2, 5, 60, 300, 1200]))
            blk = rle1(plain)
            o = dict(bopt(len(blk)) if callable(bopt) else (bopt or {}))
            if o.get('rand'):
                # the block that is BWT-coded is the randomised form
                blk = randomise(rnums, blk)
            blocks.append((plain, blk, o))
        enc_stream(w, rng, level, blocks, sopt)
        cases.append((label, prefix + w.bytes() + tail, expect))

    for i in range(count):
        one_stream('g-valid%d' % i, 'ok', bopt=lambda n: {
            'zig': rng.random() < 0.5, 'deep': rng.random() < 0.3,
            'surplus': rng.choice([0, 0, 1, 7, 200]),
            'rand': rng.random() < 0.25,
            'bad_table': rng.choice([None, None, ('incomplete', False), ('over', False)])})
    one_stream('g-surplus-max', 'ok', nblocks=1, sizes=[40],
               bopt=lambda n: {'surplus': 32767 - 1})
    one_stream('g-surplus-18002', 'ok', nblocks=1, sizes=[40],
               bopt=lambda n: {'surplus': 18002 - 1})
    one_stream('g-rand-big', 'ok', nblocks=2, sizes=[3000], bopt={'rand': True})
    one_stream('g-pad-ones', 'ok', sopt={'pad_ones': True})
    # concatenation of crafted streams: blocks land on every bit offset
    w = BitW()
    for k in range(6):
        p = gen_plain(rng, 50 + k)
        enc_stream(w, rng, 1 + k, [(p, rle1(p), {'zig': True})])
    cases.append(('g-concat6', w.bytes(), 'ok'))
    # documented strictness
    for i in range(max(2, count // 10)):
        one_stream('g-used-incomplete%d' % i, 'strict', nblocks=1,
                   bopt={'bad_table': ('incomplete', True)})
        one_stream('g-used-oversubscribed%d' % i, 'strict', nblocks=1,
                   bopt={'bad_table': ('over', True)})
    for tailrun in (b'aaaa', b'xyzzzz', b'\0\0\0\0'):
        w = BitW()
        blk = b'hello ' + tailrun
        # the plaintext libbz2 would produce if it read the run as 4 + count 0
        enc_stream(w, rng, 3, [(blk, blk, {})])
        cases.append(('g-missing-count-%s' % tailrun.hex(), w.bytes(), 'strict'))
    # single defects: both must reject
    defects = [
        ('origptr-n', lambda n: {'origPtr': n}),
        ('origptr-max', lambda n: {'origPtr': (1 << 24) - 1}),
        ('empty-bitmap', lambda n: {'empty_bitmap': True}),
        ('ngroups-0', lambda n: {'nGroups': 2, 'nGroups_field': 0}),
        ('ngroups-1', lambda n: {'nGroups': 2, 'nGroups_field': 1}),
        ('ngroups-7', lambda n: {'nGroups': 6, 'nGroups_field': 7}),
        ('nselectors-0', lambda n: {'nSelectors_field': 0}),
        ('few-selectors', lambda n: {'few_selectors': True}),
        ('bad-selector', lambda n: {'bad_selector': 0}),
        ('bad-surplus-selector', lambda n: {'surplus': 3, 'bad_selector': -1}),
        ('start-0', lambda n: {'start_len': {0: 0}}),
        ('start-21', lambda n: {'start_len': {1: 21}}),
        ('start-31', lambda n: {'start_len': {0: 31}}),
        ('excursion-hi', lambda n: {'excursion': (1, 0, 'hi')}),
        ('excursion-lo', lambda n: {'excursion': (0, 1, 'lo')}),
        ('excursion-hi-3', lambda n: {'excursion': (2, 2, 'hi'), 'nGroups': 3}),
        ('no-eob', lambda n: {'no_eob': True}),
        ('block-crc', lambda n: {'crc': 12345}),
        ('block-magic', lambda n: {'magic': 0x314159265358}),
    ]
    for name, f in defects:
        for rep in range(2):
            if name == 'few-selectors':
                one_stream('g-defect-%s-%d' % (name, rep), 'err', nblocks=1, bopt=f,
                           sizes=[120, 400], plain_fn=lambda r, n: r.randbytes(n))
            else:
                one_stream('g-defect-%s-%d' % (name, rep), 'err', nblocks=1, bopt=f)
    for size in (1, 2, 3, 4):         # origPtr = n where the decode would not even change
        one_stream('g-defect-origptr-n-size%d' % size, 'err', nblocks=1, sizes=[size],
                   bopt=lambda n: {'origPtr': n}, plain_fn=lambda r, n: r.randbytes(n))
    one_stream('g-defect-eos', 'err', sopt={'eos': 0x177245385091})
    one_stream('g-defect-stream-crc', 'err', nblocks=2, sopt={'stream_crc': 1})
    # capacity: level 1 holds 100000 bytes after RLE1
    for n, exp in ((99999, 'ok'), (100000, 'ok'), (100001, 'err')):
        w = BitW()
        while True:
            blk = rng.randbytes(n)
            if no_run4(blk):
                break
        enc_stream(w, rng, 1, [(blk, blk, {})])
        cases.append(('g-cap-%d' % n, w.bytes(), exp))
    return cases


# ------------------------------------------------------------------ campaigns
def campaign_tables(st):
    lib = ctypes.CDLL(ctypes.util.find_library('bz2'))
    rn = list((ctypes.c_int32 * 512).in_dll(lib, 'BZ2_rNums'))
    ct = list((ctypes.c_uint32 * 256).in_dll(lib, 'BZ2_crc32Table'))
    samples = (b'', b'a', b'123456789', bytes(range(256)))
    rep = ask_batch(['randtab', 'crctab'] + ['crc32 ' + hx(x) for x in samples])
    mine_r = [int(x) for x in rep[0].split(',')]
    mine_c = [int(x) for x in rep[1].split(',')]
    st.n += 2
    if mine_r != rn:
        st.bad.append(('randTable', 'differs from libbz2 BZ2_rNums', ''))
    if mine_c != ct:
        st.bad.append(('crcTable', 'differs from libbz2 BZ2_crc32Table', ''))
    # and the CRC function itself
    for s, r in zip(samples, rep[2:]):
        st.n += 1
        if int(r) != crc_bz(s):
            st.bad.append(('crc32', 'crc32(%r) differs' % s[:12], ''))
    if crc_bz(b'123456789') != 0xFC891918:
        st.bad.append(('crc_bz', 'python helper wrong', ''))
    return rn


def campaign_inspect(st, rng, rn, thorough):
    """The inspector: verdicts on C02's producer rules and the reported fields."""
    lines, checks = [], []

    def add(label, data, expect, fields=None):
        lines.append('inspect ' + hx(data))
        checks.append((label, data, expect, fields))

    # libbz2's own encoder output is strictly well-formed
    for name, plain in [('empty', b''), ('one', b'x'), ('text', words_text(rng, 3000)),
                        ('runs', b'a' * 700 + b'b' * 4 + b'c' * 259),
                        ('rand', rng.randbytes(5000)),
                        ('multi', rng.randbytes(250000))]:
        for lvl in (1, 9):
            c = bz2.compress(plain, lvl)
            f = {'level': lvl, 'size': len(plain), 'crc': crc_bz(plain)}
            if len(rle1(plain, 255)) <= lvl * 100000 - 19 and plain:
                f['nblocks'] = 1
                f['nblock0'] = len(rle1(plain, 255))
            add('bz2-%s@%d' % (name, lvl), c, 'ok', f)
    s1 = bz2.compress(b'hello', 9)
    add('two-streams', s1 + s1, 'err trailing-data')
    add('trailing-nul', s1 + b'\0', 'err trailing-data')
    add('bad-crc', s1[:-3] + bytes([s1[-3] ^ 1]) + s1[-2:], None)
    # crafted streams with known parameters
    for i in range(60 if not thorough else 400):
        w = BitW()
        level = rng.randint(1, 9)
        kind = rng.choice(['plain', 'plain', 'plain', 'rand', 'unused-incomplete',
                           'unused-over', 'selectors'])
        blocks = []
        for _ in range(rng.randint(1, 3)):
            plain = gen_plain(rng, rng.choice([1, 5, 60, 300, 1200]))
            blk = rle1(plain)
            o = {'zig': rng.random() < 0.5, 'surplus': rng.choice([0, 0, 3])}
            blocks.append([plain, blk, o])
        victim = rng.choice(blocks)
        exp = 'ok'
        if kind == 'rand':
            victim[2]['rand'] = True
            victim[1] = randomise(rn, victim[1])
            exp = 'err randomised'
        elif kind == 'unused-incomplete':
            victim[2]['bad_table'] = ('incomplete', False)
            victim[2]['nGroups'] = rng.randint(3, 6)
            exp = 'err incomplete-table'
        elif kind == 'unused-over':
            victim[2]['bad_table'] = ('over', False)
            victim[2]['nGroups'] = rng.randint(3, 6)
            exp = 'err incomplete-table'
        elif kind == 'selectors':
            n = rng.choice([18001, 18002, 18003, 32767])
            need = 1 + len(victim[1]) // 50 + 2
            victim[2]['surplus'] = n - need     # approximately; exact count checked below
        infos = []
        enc_stream(w, rng, level, [tuple(b) for b in blocks], infos=infos)
        if kind == 'selectors':
            exp = 'ok' if all(len(x['selectors']) <= 18002 for x in infos) else \
                'err too-many-selectors'
        add('crafted%d-%s' % (i, kind), w.bytes(), exp,
            {'level': level, 'blocks': infos} if exp == 'ok' else None)
    replies = ask_all(lines, per_batch=10)
    for (label, data, expect, fields), r in zip(checks, replies):
        st.n += 1
        prob = None
        if expect is not None and expect != 'ok' and r != expect:
            prob = 'inspect says %s, expected %s' % (r[:60], expect)
        elif expect == 'ok':
            if not r.startswith('ok '):
                prob = 'inspect says %s, expected ok' % r[:60]
            else:
                st.both_ok += 1
                rep = json.loads(r[3:])
                if len(rep['streams']) != 1:
                    prob = 'not exactly one stream reported'
                else:
                    s = rep['streams'][0]
                    got = {'level': s['level'], 'size': rep['size'], 'crc': rep['crc'],
                           'nblocks': len(s['blocks'])}
                    if s['blocks']:
                        got['nblock0'] = s['blocks'][0]['nblock']
                    for k, v in fields.items():
                        if k == 'blocks':
                            if len(v) != len(s['blocks']):
                                prob = 'block count'
                                break
                            for want, b in zip(v, s['blocks']):
                                for kk, vv in want.items():
                                    if b.get(kk) != vv:
                                        prob = 'block field %s: reported %s, encoder chose %s' % (
                                            kk, str(b.get(kk))[:80], str(vv)[:80])
                        elif got.get(k) != v:
                            prob = 'field %s: reported %s, expected %s' % (k, got.get(k), v)
                    if not prob and rep['size'] != sum(b['size'] for b in s['blocks']):
                        prob = 'sizes do not add up'
                    if not prob and s['end'] != 8 * len(data):
                        prob = 'stream end offset %d != file bits %d' % (s['end'], 8 * len(data))
        else:
            if r.startswith('ok '):
                prob = 'inspect accepts a damaged stream'
        if r.startswith('err '):
            st.both_rej += 1
            st.reasons[r[4:]] = st.reasons.get(r[4:], 0) + 1
        if prob:
            st.bad.append((label, prob, hx(data) if len(data) <= 2048 else ''))



def main():
    global NTHREADS
    tier = os.environ.get('VERIF_TIER', 'quick')
    only = None
    NTHREADS = min(8, os.cpu_count() or 1)
    av = sys.argv[1:]
    for i, a in enumerate(av):
        if a == '--tier':
            tier = av[i + 1]
        if a == '--only':
            only = set(av[i + 1].split(','))
        if a == '-j':
            NTHREADS = int(av[i + 1])
    thorough = tier == 'thorough'
    seed = int(os.environ.get('VERIF_SEED', '1') or 1)
    rng = random.Random(seed * 7919 + 5)
    if not find_driver():
        print('spec_xcheck: no driver with the Spec commands found '
              '(build with tools/setup.py, or set LBZDRV)')
        sys.exit(2)
    t0 = time.time()
    lib = ctypes.CDLL(ctypes.util.find_library('bz2'))
    lib.BZ2_bzlibVersion.restype = ctypes.c_char_p
    print('spec_xcheck: driver %s, libbz2 %s, tier %s, seed %d' % (
        DRV, lib.BZ2_bzlibVersion().decode(), tier, seed), flush=True)
    stats = {}

    def want(k):
        return only is None or k in only

    rn = None
    st = stats['T'] = Stats()
    rn = campaign_tables(st)          # always: the other campaigns need rn
    print('[T] tables and crc32: %d comparisons, %d problems' % (st.n, len(st.bad)),
          flush=True)

    # ---------------------------------------------------------------- (a)
    if want('a'):
        st = stats['a'] = Stats()
        files = sorted(glob.glob(os.path.join(REPO, 'tests', '*.bz2')) +
                       glob.glob(os.path.join(REPO, 'tests', 'suite',
                                              'manual-expand', '*.bz2')))
        jobs = [(os.path.relpath(f, REPO), open(f, 'rb').read()) for f in files]
        compare_all(st, jobs, per_batch=1)      # some decode to 46 MB
        print('[a] repo test files: %d files, both accept %d, both reject %d, '
              'documented strictness %d, problems %d  (%.0fs)' % (
                  st.n, st.both_ok, st.both_rej, len(st.documented), len(st.bad),
                  time.time() - t0), flush=True)

    # ---------------------------------------------------------------- (b)
    small_valid = []
    if want('b') or want('c'):
        st = stats['b'] = Stats()
        fam, big = families(rng, thorough)
        jobs = []
        for name, data in fam:
            for lvl in ((1, 5, 9) if not thorough else range(1, 10)):
                jobs.append(('%s@%d' % (name, lvl), bz2.compress(data, lvl), 'ok'))
        for name, data in big:
            for lvl in ((1, 9) if not thorough else (1, 2, 5, 9)):
                jobs.append(('%s@%d' % (name, lvl), bz2.compress(data, lvl), 'ok'))
        # every level once on something with several blocks at level 1
        multi = rng.randbytes(30000) + b'q' * 50000 + words_text(rng, 150000)
        for lvl in range(1, 10):
            jobs.append(('multi@%d' % lvl, bz2.compress(multi, lvl), 'ok'))
        # concatenations and trailing data
        s1 = bz2.compress(b'hello world', 1)
        s2 = bz2.compress(b'second stream ' * 20, 9)
        s0 = bz2.compress(b'', 5)
        cat = [('cat2', s1 + s2, 'ok'), ('cat3', s1 + s2 + s1, 'ok'),
               ('cat-empty', s0 + s0 + s1 + s0, 'ok'),
               ('cat50', b''.join(bz2.compress(b'%d' % i, 1 + i % 9)
                                  for i in range(50)), 'ok')]
        for tname, tail in [('nul', b'\0'), ('B', b'B'), ('BZ', b'BZ'), ('BZh', b'BZh'),
                            ('BZh0', b'BZh0' + s1[4:]), ('BZhA', b'BZhA'),
                            ('BZx', b'BZx9' + s1[4:]), ('bzh9', b'bzh9'),
                            ('rand', rng.randbytes(40)), ('nuls', b'\0' * 9),
                            ('BZ-nul', b'BZ\0'), ('shifted', b'\0' + s1)]:
            cat.append(('trail-' + tname, s1 + tail, 'ok'))
            cat.append(('trail2-' + tname, s1 + s2 + tail, 'ok'))
        for tname, tail in [('hdr-only', b'BZh9'), ('hdr1-only', b'BZh1'),
                            ('hdr-trunc', s2[:-1]), ('hdr-trunc20', s2[:20]),
                            ('hdr-garbage', b'BZh5' + rng.randbytes(30)),
                            ('hdr-badcrc', s2[:-2] + bytes([s2[-2] ^ 1, s2[-1]]))]:
            cat.append(('trailbad-' + tname, s1 + tail, 'err'))
        for nm, d, e in [('void', b'', 'err'), ('B', b'B', 'err'), ('BZh', b'BZh', 'err'),
                         ('BZh9', b'BZh9', 'err'), ('BZh0', b'BZh0' + s1[4:], 'err'),
                         ('garbage', rng.randbytes(64), 'err'),
                         ('nul-first', b'\0' + s1, 'err')]:
            cat.append(('first-' + nm, d, e))
        jobs += cat
        # randomised blocks (legacy feature; libbz2 decodes them)
        nrand = 0
        for n in ([10, 616, 617, 618, 619, 1337, 1338, 5000, 40000] +
                  ([200000, 700000] if thorough else [])):
            cr = craft_randomised(rng, rn, n)
            if cr:
                nrand += 1
                jobs.append(('randomised%d' % n, cr[0], 'ok'))
                # the plaintext must be what we planned
                r = ref_decode(cr[0])
                if r != ('ok', cr[1]):
                    st.bad.append(('randomised%d' % n,
                                   'crafted stream not decoded as planned by libbz2', ''))
        if want('b'):
            compare_all(st, jobs)
            print('[b] generated: %d streams (%d randomised), both accept %d, both reject %d, '
                  'documented %d, problems %d, byte-exact comparisons %d  (%.0fs)' % (
                      st.n, nrand, st.both_ok, st.both_rej, len(st.documented),
                      len(st.bad), st.full_bytes, time.time() - t0), flush=True)
        small_valid = [(l, d) for (l, d, e) in jobs if e == 'ok' and len(d) <= 160]

    # ---------------------------------------------------------------- (g)
    if want('g'):
        st = stats['g'] = Stats()
        jobs = gen_cases(rng, rn, 1500 if thorough else 150)
        compare_all(st, jobs)
        print('[g] structured generator: %d streams, both accept %d, both reject %d, '
              'documented %d, problems %d, byte-exact comparisons %d  (%.0fs)' % (
                  st.n, st.both_ok, st.both_rej, len(st.documented), len(st.bad),
                  st.full_bytes, time.time() - t0), flush=True)
        print('    Spec rejection reasons:', json.dumps(st.reasons, sort_keys=True))

    # ---------------------------------------------------------------- (i)
    if want('i'):
        st = stats['i'] = Stats()
        campaign_inspect(st, rng, rn, thorough)
        print('[i] inspector: %d streams, accepted %d (all reported fields compared), '
              'rejected %d, problems %d  (%.0fs)' % (
                  st.n, st.both_ok, st.both_rej, len(st.bad), time.time() - t0), flush=True)
        print('    inspect rejection reasons:', json.dumps(st.reasons, sort_keys=True))

    # ---------------------------------------------------------------- (c)
    if want('c'):
        st = stats['c'] = Stats()
        bases = []
        for f in ('32767.bz2', 'codelen20.bz2', 'concat.bz2', 'gap.bz2', 'rand.bz2',
                  'trash.bz2', 'empty.bz2', 'incomp-1.bz2', 'incomp-2.bz2') + (
                      ('fib.bz2', 'repet.bz2') if thorough else ()):
            p = os.path.join(REPO, 'tests', f)
            if os.path.exists(p):
                bases.append((f, open(p, 'rb').read()))
        rng.shuffle(small_valid)
        # all levels are the same code path for flips; prefer level-1 streams
        # (a flipped run length can then blow up to 100000*51 bytes at most)
        sv = [x for x in small_valid if x[0].endswith('@1') or '@' not in x[0]]
        bases += sv[:(60 if thorough else 14)]
        jobs = []
        for name, d in bases:
            nbits = 8 * len(d)
            if nbits <= (2400 if not thorough else 40000):
                flips = range(nbits)
            else:
                flips = sorted(rng.sample(range(nbits), 600 if not thorough else 3000))
            for i in flips:
                m = bytearray(d)
                m[i >> 3] ^= 0x80 >> (i & 7)
                jobs.append(('%s^bit%d' % (name, i), bytes(m)))
            cuts = range(len(d)) if len(d) <= 400 else sorted(
                rng.sample(range(len(d)), 200))
            for k in cuts:
                jobs.append(('%s[:%d]' % (name, k), d[:k]))
        rng.shuffle(jobs)
        compare_all(st, jobs)
        print('[c] mutations: %d base files, %d mutants, both accept %d, both reject %d, '
              'documented %d, problems %d  (%.0fs)' % (
                  len(bases), st.n, st.both_ok, st.both_rej, len(st.documented),
                  len(st.bad), time.time() - t0), flush=True)
        print('    Spec rejection reasons:', json.dumps(st.reasons, sort_keys=True))

    # ------------------------------------------------------------- summary
    nbad = 0
    for k, st in stats.items():
        for label, why in st.documented[:8]:
            print('documented-strictness [%s] %s: Spec %s, libbz2 accepts' % (k, label, why))
        if len(st.documented) > 8:
            print('documented-strictness [%s] ... and %d more' % (k, len(st.documented) - 8))
        for label, what, h in st.bad:
            nbad += 1
            print('DISAGREEMENT [%s] %s: %s%s' % (k, label, what, ('\n    hex ' + h) if h else ''))
    summary = {k: {'cases': st.n, 'both_accept': st.both_ok, 'both_reject': st.both_rej,
                   'documented': len(st.documented), 'problems': len(st.bad)}
               for k, st in stats.items()}
    print('SUMMARY ' + json.dumps(summary, sort_keys=True))
    print('spec_xcheck: %s in %.0fs' % ('OK' if nbad == 0 else '%d DISAGREEMENT(S)' % nbad,
                                        time.time() - t0))
    sys.exit(1 if nbad else 0)


if __name__ == '__main__':
    main()
