"""bzip2 format toolkit for the /verif campaigns (pure Python, no lbzip2 code).

* `strict_decode(data)`   — strict bzip2 1.0.x reference decoder (the same
  language as LbzVerif.Spec.Bzip2; used as a fast second opinion next to the
  Lean driver and libbz2).
* `Enc` / `make_block` / `make_stream` — a structured encoder with every
  degree of freedom of the format exposed (tables, selectors, delta paths,
  randomisation, origPtr, CRCs, magics), recording the bit offset of every
  field so that mutations can be aimed at a field.
"""
import random

# ---------------------------------------------------------------- CRC


def _crc_table():
    t = []
    for i in range(256):
        c = i << 24
        for _ in range(8):
            c = ((c << 1) & 0xFFFFFFFF) ^ (0x04C11DB7 if c & 0x80000000 else 0)
        t.append(c)
    return t


CRCT = _crc_table()


def bzcrc_slow(data, c=0xFFFFFFFF):
    for b in data:
        c = ((c << 8) & 0xFFFFFFFF) ^ CRCT[(c >> 24) ^ b]
    return c ^ 0xFFFFFFFF


_REV8 = bytes(int('{:08b}'.format(i)[::-1], 2) for i in range(256))


def bzcrc(data):
    """CRC-32/BZIP2 = bit-reflected zlib CRC of the bit-reflected bytes."""
    import zlib
    v = zlib.crc32(bytes(data).translate(_REV8)) & 0xFFFFFFFF
    return int('{:032b}'.format(v)[::-1], 2)


def forge_crc(prefix, target):
    """prefix + 4 bytes whose CRC-32/BZIP2 is `target` (the CRC is affine in
    the last four bytes: solve the 32x32 system over GF(2))."""
    prefix = bytes(prefix)
    c0 = bzcrc(prefix + b'\0\0\0\0')
    cols = []
    for i in range(32):
        e = (1 << i).to_bytes(4, 'big')
        cols.append(bzcrc(prefix + e) ^ c0)
    want = target ^ c0
    # Gaussian elimination: rows = (column value, mask of suffix bits)
    basis = {}
    for i, v in enumerate(cols):
        m = 1 << i
        while v:
            h = v.bit_length() - 1
            if h not in basis:
                basis[h] = (v, m)
                break
            bv, bm = basis[h]
            v ^= bv
            m ^= bm
    x = 0
    v = want
    while v:
        h = v.bit_length() - 1
        bv, bm = basis[h]          # full rank: always present
        v ^= bv
        x ^= bm
    out = prefix + x.to_bytes(4, 'big')
    assert bzcrc(out) == target
    return out


def combine(cc, c):
    return (((cc << 1) & 0xFFFFFFFF) | (cc >> 31)) ^ c


BLOCK_MAGIC = 0x314159265359
EOS_MAGIC = 0x177245385090

RAND_TABLE = None  # filled from the Gen file on demand (also checked vs libbz2)


def rand_table():
    global RAND_TABLE
    if RAND_TABLE is None:
        import os
        import re
        p = os.path.join(os.path.dirname(os.path.abspath(__file__)), '..',
                         'lean', 'LbzVerif', 'Gen', 'DecodeTab.lean')
        s = open(p).read()
        m = re.search(r'def randTable : List Nat := \[(.*?)\]', s, re.S)
        RAND_TABLE = [int(x) for x in re.findall(r'\d+', m.group(1))]
        assert len(RAND_TABLE) == 512
    return RAND_TABLE


def rand_positions(n):
    """positions j < n whose byte is XORed with 1 by (de)randomisation."""
    t = rand_table()
    out = []
    i = 0
    j = t[0] - 1          # bzip2: rNToGo = rNums[0]; fires when it hits 1
    # lbzip2: j = RAND_THRESH(617); t[0] = 619 -> first toggled index 618?
    # bzip2 reference: BZ_RAND_UPD_MASK: if rNToGo==0 {rNToGo=rNums[rTPos];
    # rTPos++}; rNToGo--; mask = (rNToGo==1).  First byte k=0: rNToGo=619-1
    # =618 -> mask at the byte where rNToGo==1, i.e. k = 617.
    j = t[0] - 2
    while j < n:
        out.append(j)
        i = (i + 1) & 0x1FF
        j += t[i]
    return out


# ---------------------------------------------------------------- bits
class BitWriter:
    def __init__(self):
        self.bits = []
        self.fields = []      # (name, start, length)

    def put(self, n, v, name=None):
        if name:
            self.fields.append((name, len(self.bits), n))
        for i in range(n - 1, -1, -1):
            self.bits.append((v >> i) & 1)

    def raw(self, s, name=None):
        if name:
            self.fields.append((name, len(self.bits), len(s)))
        for ch in s:
            self.bits.append(1 if ch in (1, '1') else 0)

    def align(self, name=None):
        k = (-len(self.bits)) % 8
        if name and k:
            self.fields.append((name, len(self.bits), k))
        self.bits.extend([0] * k)

    def bytes(self):
        b = self.bits + [0] * ((-len(self.bits)) % 8)
        out = bytearray()
        for i in range(0, len(b), 8):
            v = 0
            for x in b[i:i + 8]:
                v = (v << 1) | x
            out.append(v)
        return bytes(out)


class BitReader:
    def __init__(self, data):
        self.d = data
        self.pos = 0
        self.n = len(data) * 8

    def get(self, k):
        if self.pos + k > self.n:
            raise Reject('eof')
        v = 0
        p = self.pos
        for _ in range(k):
            v = (v << 1) | ((self.d[p >> 3] >> (7 - (p & 7))) & 1)
            p += 1
        self.pos = p
        return v

    def bit(self):
        p = self.pos
        if p >= self.n:
            raise Reject('eof')
        self.pos = p + 1
        return (self.d[p >> 3] >> (7 - (p & 7))) & 1


class Reject(Exception):
    pass


# ---------------------------------------------------------------- stages
def rle1(data):
    out = bytearray()
    i = 0
    n = len(data)
    while i < n:
        c = data[i]
        j = i
        while j < n and data[j] == c and j - i < 259:
            j += 1
        r = j - i
        if r >= 4:
            out += bytes([c]) * 4
            out.append(r - 4)
        else:
            out += bytes([c]) * r
        i = j
    return bytes(out)


def unrle1(data):
    out = bytearray()
    i = 0
    n = len(data)
    run = 0
    prev = -1
    while i < n:
        c = data[i]
        i += 1
        if run == 4:
            out += bytes([prev]) * c
            run = 0
            prev = -1
            continue
        if c == prev:
            run += 1
        else:
            run = 1
            prev = c
        out.append(c)
    if run == 4:
        raise Reject('runlen')
    return bytes(out)


def bwt(block):
    n = len(block)
    if n == 0:
        return b'', 0
    if block.count(block[0]) == n:
        return bytes(block), 0
    dbl = bytes(block) + bytes(block)
    # sort rotations by a bounded prefix first (memory O(n*K)), then refine
    # only the groups that are still tied with longer and longer prefixes
    K = 32
    idx = sorted(range(n), key=lambda i: dbl[i:i + K])
    while K < n:
        out = []
        j = 0
        tied = False
        while j < n:
            k = j + 1
            kj = dbl[idx[j]:idx[j] + K]
            while k < n and dbl[idx[k]:idx[k] + K] == kj:
                k += 1
            if k - j > 1:
                tied = True
                K2 = min(n, K * 8)
                grp = sorted(idx[j:k], key=lambda i: dbl[i:i + K2])
                out.extend(grp)
            else:
                out.append(idx[j])
            j = k
        idx = out
        if not tied:
            break
        K = min(n, K * 8)
    # ties that remain (periodic strings): any consistent choice is valid
    last = bytes(dbl[i + n - 1] for i in idx)
    return last, idx.index(0)


def ibwt(last, idx):
    n = len(last)
    cnt = [0] * 256
    for c in last:
        cnt[c] += 1
    base = [0] * 256
    s = 0
    for c in range(256):
        base[c] = s
        s += cnt[c]
    nxt = [0] * n
    for i, c in enumerate(last):
        nxt[base[c]] = i
        base[c] += 1
    out = bytearray()
    p = nxt[idx]
    for _ in range(n):
        out.append(last[p])
        p = nxt[p]
    return bytes(out)


def mtf_rle2(block):
    used = sorted(set(block))
    order = list(used)
    syms = []
    k = 0

    def flush():
        nonlocal k
        while k > 0:
            k -= 1
            syms.append(k & 1)
            k >>= 1
    for c in block:
        p = order.index(c)
        if p == 0:
            k += 1
            continue
        flush()
        order.pop(p)
        order.insert(0, c)
        syms.append(p + 1)
    flush()
    syms.append(len(used) + 1)
    return used, syms


def un_mtf_rle2(used, syms, limit):
    order = list(used)
    eob = len(used) + 1
    out = bytearray()
    run = 0
    shift = 0
    for s in syms:
        if s <= 1:
            run += (s + 1) << shift
            shift += 1
            if run > limit:
                raise Reject('overflow')
            continue
        if run:
            out += bytes([order[0]]) * run
            run = 0
            shift = 0
            if len(out) > limit:
                raise Reject('overflow')
        if s == eob:
            return bytes(out)
        p = s - 1
        if p >= len(order):
            raise Reject('symbol')
        c = order.pop(p)
        order.insert(0, c)
        out.append(c)
        if len(out) > limit:
            raise Reject('overflow')
    raise Reject('unterminated')


# ---------------------------------------------------------------- codes
def kraft(lens):
    return sum(1 << (20 - l) for l in lens)


def complete(lens):
    return all(1 <= l <= 20 for l in lens) and kraft(lens) == 1 << 20


def canon_codes(lens):
    order = sorted(range(len(lens)), key=lambda i: (lens[i], i))
    codes = [0] * len(lens)
    code = 0
    prev = 0
    for i in order:
        code <<= (lens[i] - prev)
        prev = lens[i]
        codes[i] = code
        code += 1
    return codes


def huffman_lengths(freq, maxlen=20):
    """Length-limited Huffman by frequency flattening (as bzip2 does)."""
    import heapq
    n = len(freq)
    f = [max(x, 1) for x in freq]
    while True:
        h = [(w, i, None) for i, w in enumerate(f)]
        heapq.heapify(h)
        cnt = n
        parent = {}
        while len(h) > 1:
            a = heapq.heappop(h)
            b = heapq.heappop(h)
            parent[a[1]] = cnt
            parent[b[1]] = cnt
            heapq.heappush(h, (a[0] + b[0], cnt, None))
            cnt += 1
        lens = []
        for i in range(n):
            d = 0
            j = i
            while j in parent:
                j = parent[j]
                d += 1
            lens.append(max(d, 1))
        if n == 1:
            return [1]
        if max(lens) <= maxlen:
            return lens
        f = [1 + x // 2 for x in f]


def random_complete_lengths(rng, n, maxlen=20, deep=False):
    """A random Kraft-complete length multiset for n symbols (n >= 2)."""
    leaves = [1, 1]
    while len(leaves) < n:
        cands = [i for i, l in enumerate(leaves) if l < maxlen]
        if deep:
            m = max(leaves[i] for i in cands)
            cands = [i for i in cands if leaves[i] == m] or cands
        i = rng.choice(cands)
        l = leaves.pop(i)
        leaves += [l + 1, l + 1]
    rng.shuffle(leaves)
    return leaves


# ---------------------------------------------------------------- encoder
def delta_bits(lens, rng=None, zigzag=0.0, start=None):
    """Delta coding of one table.  With zigzag>0 insert random detours that
    stay within 1..20."""
    s = []
    cur = lens[0] if start is None else start
    hdr = cur
    for l in lens:
        while True:
            if rng is not None and zigzag > 0 and rng.random() < zigzag:
                if cur < 20 and rng.random() < 0.5:
                    s.append('10')
                    cur += 1
                    continue
                if cur > 1:
                    s.append('11')
                    cur -= 1
                    continue
            if cur < l:
                s.append('10')
                cur += 1
            elif cur > l:
                s.append('11')
                cur -= 1
            else:
                break
        s.append('0')
    return hdr, ''.join(s)


def make_block(w, plain, level=9, rng=None, **kw):
    """Append one compressed block for `plain` (bytes) to BitWriter `w`.

    Keyword knobs (all optional):
      pre_rle      : bytes — give the post-RLE1 block directly (plain ignored
                     for the payload; CRC is of unrle1(pre_rle) unless `crc`)
      rand         : bool — randomised block
      ntables      : 2..6
      lens         : list of length lists (one per table) — must cover alpha
      random_tables: use random complete tables instead of Huffman
      selectors    : list of table numbers per group
      extra_selectors : surplus selectors appended (value 0)
      zigzag       : probability of detours in delta coding
      origptr, crc, magic : overrides
      raw_tables   : list of (start5, bitstring) replacing table coding
      nsel_field, ngroups_field : override the transmitted counts
      drop_eob     : omit the EOB symbol
      tail_syms    : extra symbols appended after EOB padding group
    Returns dict with the field offsets of this block and its crc.
    """
    rng = rng or random.Random(0)
    block = kw.get('pre_rle')
    if block is None:
        block = rle1(plain)
        crc = bzcrc(plain)
    else:
        try:
            crc = bzcrc(unrle1(block))
        except Reject:
            crc = 0
    crc = kw.get('crc', crc)
    rand = kw.get('rand', False)
    tblock = bytearray(block)
    if rand:
        for j in rand_positions(len(tblock)):
            tblock[j] ^= 1
    last, idx = bwt(bytes(tblock))
    used, syms = mtf_rle2(last)
    if kw.get('drop_eob'):
        syms = syms[:-1]
    syms = syms + list(kw.get('tail_syms', []))
    alpha = len(used) + 2
    ngroups_real = (len(syms) + 49) // 50
    nt = kw.get('ntables') or (2 if len(syms) < 200 else
                               rng.choice([2, 3, 4, 5, 6]))
    lens = kw.get('lens')
    sel = kw.get('selectors')
    if sel is None:
        sel = [rng.randrange(nt) if kw.get('random_selectors') else
               (g % nt) for g in range(ngroups_real)]
    if lens is None:
        lens = []
        for t in range(nt):
            if kw.get('random_tables'):
                lens.append(random_complete_lengths(
                    rng, alpha, deep=kw.get('deep', False)))
            else:
                f = [0] * alpha
                for g, tsel in enumerate(sel):
                    if tsel == t:
                        for s in syms[g * 50:(g + 1) * 50]:
                            f[s] += 1
                lens.append(huffman_lengths(f))
    start = len(w.bits)
    w.put(48, kw.get('magic', BLOCK_MAGIC), 'block_magic')
    w.put(32, crc, 'block_crc')
    w.put(1, 1 if rand else 0, 'rand')
    w.put(24, kw.get('origptr', idx), 'origptr')
    big = 0
    small = [0] * 16
    for c in used:
        big |= 1 << (15 - (c >> 4))
        small[c >> 4] |= 1 << (15 - (c & 15))
    if kw.get('empty_bitmap'):
        big = 0
    w.put(16, big, 'bitmap_big')
    for i in range(16):
        if big & (1 << (15 - i)):
            w.put(16, small[i], 'bitmap_small')
    w.put(3, kw.get('ngroups_field', nt), 'ngroups')
    allsel = list(sel) + [0] * kw.get('extra_selectors', 0)
    w.put(15, kw.get('nsel_field', len(allsel)), 'nselectors')
    order = list(range(6))
    sb = len(w.bits)
    for s in allsel:
        p = order.index(s)
        order.pop(p)
        order.insert(0, s)
        w.raw('1' * p + '0')
    w.fields.append(('selectors', sb, len(w.bits) - sb))
    raw_tables = kw.get('raw_tables')
    for t in range(nt):
        if raw_tables and raw_tables[t] is not None:
            st, bits = raw_tables[t]
        else:
            st, bits = delta_bits(lens[t], rng, kw.get('zigzag', 0.0))
        w.put(5, st, 'table_start')
        w.raw(bits, 'table_delta')
    cb = len(w.bits)
    codes = [canon_codes(l) for l in lens]
    for g in range(ngroups_real):
        t = sel[g] if g < len(sel) else 0
        for s in syms[g * 50:(g + 1) * 50]:
            w.put(lens[t][s], codes[t][s])
    w.fields.append(('codes', cb, len(w.bits) - cb))
    return {'start': start, 'end': len(w.bits), 'crc': crc, 'lens': lens,
            'selectors': allsel, 'nblock': len(block), 'origptr': idx,
            'syms': len(syms), 'alpha': alpha}


def make_stream(w, blocks, level=9, rng=None, **kw):
    """blocks: list of (plain, knobs dict).  Appends header, blocks, trailer."""
    w.put(8, 0x42, 'hdr_B')
    w.put(8, 0x5A, 'hdr_Z')
    w.put(8, 0x68, 'hdr_h')
    w.put(8, kw.get('level_byte', 0x30 + level), 'hdr_level')
    cc = 0
    infos = []
    for plain, knobs in blocks:
        info = make_block(w, plain, level, rng, **knobs)
        infos.append(info)
        cc = combine(cc, info['crc'])
    w.put(48, kw.get('eos_magic', EOS_MAGIC), 'eos_magic')
    w.put(32, kw.get('stream_crc', cc), 'stream_crc')
    w.align('pad')
    return infos


def simple_file(plains, level=9, rng=None, **kw):
    w = BitWriter()
    make_stream(w, [(p, dict(kw)) for p in plains], level, rng)
    return w.bytes(), w


# ---------------------------------------------------------------- decoder
def read_block(r, level, full=True):
    """Reads one block body after the magic; returns plaintext bytes and
    stored crc.  Strict.  With full=False the inverse BWT / un-RLE / CRC
    stages are skipped (plain is None) and only the syntax, tables, symbol
    stream and sizes are checked and reported."""
    crc = r.get(32)
    rand = r.get(1)
    orig = r.get(24)
    big = r.get(16)
    used = []
    for i in range(16):
        if big & (1 << (15 - i)):
            sm = r.get(16)
            for j in range(16):
                if sm & (1 << (15 - j)):
                    used.append(16 * i + j)
    if not used:
        raise Reject('bitmap')
    alpha = len(used) + 2
    nt = r.get(3)
    if nt < 2 or nt > 6:
        raise Reject('trees')
    ns = r.get(15)
    if ns < 1:
        raise Reject('groups')
    order = list(range(6))
    sels = []
    for _ in range(ns):
        p = 0
        while r.bit():
            p += 1
            if p >= nt:
                raise Reject('selector')
        s = order.pop(p)
        order.insert(0, s)
        sels.append(s)
    lens = []
    for _ in range(nt):
        cur = r.get(5)
        ls = []
        for _ in range(alpha):
            while True:
                if cur < 1 or cur > 20:
                    raise Reject('delta')
                if not r.bit():
                    break
                cur += -1 if r.bit() else 1
            ls.append(cur)
        lens.append(ls)
    dec = []
    for ls in lens:
        if complete(ls):
            codes = canon_codes(ls)
            dec.append({(ls[i], codes[i]): i for i in range(alpha)})
        else:
            dec.append(None)
    limit = level * 100000
    eob = alpha - 1
    syms = []
    g = 0
    done = False
    nout = 0
    run = 0
    shift = 0
    while not done:
        if g >= len(sels):
            raise Reject('unterminated')
        d = dec[sels[g]]
        if d is None:
            raise Reject('incomplete' if kraft(lens[sels[g]]) < (1 << 20)
                         else 'prefix')
        g += 1
        for _ in range(50):
            c = 0
            l = 0
            while True:
                c = (c << 1) | r.bit()
                l += 1
                s = d.get((l, c))
                if s is not None:
                    break
                if l >= 20:
                    raise Reject('prefix')
            syms.append(s)
            # early overflow control so that bombs do not blow up memory
            if s <= 1:
                run += (s + 1) << shift
                shift += 1
                if nout + run > limit:
                    raise Reject('overflow')
            else:
                nout += run
                run = 0
                shift = 0
                if s == eob:
                    done = True
                    break
                nout += 1
                if nout > limit:
                    raise Reject('overflow')
    n = nout
    if n == 0:
        raise Reject('empty')
    if orig >= n:
        raise Reject('bwtidx')
    plain = None
    if full:
        last = un_mtf_rle2(used, syms, limit)
        assert len(last) == n
        blk = bytearray(ibwt(last, orig))
        if rand:
            for j in rand_positions(n):
                blk[j] ^= 1
        plain = unrle1(bytes(blk))
        if bzcrc(plain) != crc:
            raise Reject('blkcrc')
    freq = [[0] * alpha for _ in range(nt)]
    for gi in range(g):
        ft = freq[sels[gi]]
        for s in syms[gi * 50:(gi + 1) * 50]:
            ft[s] += 1
    info = {'crc': crc, 'rand': rand, 'origptr': orig, 'nblock': n,
            'lens': lens, 'selectors': sels, 'groups_used': g,
            'used': used, 'nsyms': len(syms), 'freq': freq,
            'plain_len': None if plain is None else len(plain)}
    return plain, crc, info


def strict_decode(data, want_info=False, full=True):
    """Returns plaintext or raises Reject(reason)."""
    r = BitReader(data)
    out = bytearray()
    infos = []
    eos_bits = []
    nstreams = 0
    while True:
        if nstreams > 0:
            # trailing data: ignored unless it begins with a full header
            rest = data[r.pos // 8:]
            if len(rest) < 4 or rest[:3] != b'BZh' or not (0x31 <= rest[3] <= 0x39):
                break
        else:
            if len(data) < 4 or data[:3] != b'BZh' or not (0x31 <= data[3] <= 0x39):
                raise Reject('magic')
        r.get(24)
        level = r.get(8) - 0x30
        cc = 0
        while True:
            m = r.get(48)
            if m == BLOCK_MAGIC:
                bstart = r.pos - 48
                plain, crc, info = read_block(r, level, full)
                info['level'] = level
                info['bit_start'] = bstart
                info['bit_end'] = r.pos
                info['stream'] = nstreams
                infos.append(info)
                if plain is not None:
                    out += plain
                cc = combine(cc, crc)
            elif m == EOS_MAGIC:
                eos_bits.append(r.pos - 48)
                if r.get(32) != cc:
                    raise Reject('strmcrc')
                break
            else:
                raise Reject('header')
        r.pos = (r.pos + 7) // 8 * 8
        nstreams += 1
    if want_info:
        return bytes(out), infos, {'streams': nstreams, 'end_byte': r.pos // 8,
                                   'eos_bits': eos_bits}
    return bytes(out)


def libbz2_decode(data):
    """libbz2 for the stream contents, our trailing-data rule around it."""
    import bz2
    out = bytearray()
    rest = data
    n = 0
    while True:
        if n > 0 and not (len(rest) >= 4 and rest[:3] == b'BZh'
                          and 0x31 <= rest[3] <= 0x39):
            return bytes(out)
        d = bz2.BZ2Decompressor()
        try:
            out += d.decompress(rest)
        except (OSError, ValueError) as e:
            raise Reject('libbz2: ' + str(e))
        if not d.eof:
            raise Reject('libbz2: eof')
        rest = d.unused_data
        n += 1


# ---------------------------------------------------------------- packing
def _runs(data, pos):
    """(char, length) runs of data[pos:], lazily, at C speed."""
    import itertools
    for c, g in itertools.groupby(memoryview(data)[pos:]):
        yield c, sum(1 for _ in g)


def rle_len_steps(data, cap, pos=0):
    """Largest k with rleLen(data[pos:pos+k]) <= cap, where rleLen is the
    length of lbzip2's run-length encoding with an open run of >= 4 counted
    as 4+1 (a fourth equal byte is taken only if it and its count fit)."""
    rem = cap
    k = 0
    for _, L in _runs(data, pos):
        while L > 0:
            seg = min(L, 259)
            cost = seg if seg < 4 else 5
            if cost <= rem:
                rem -= cost
                k += seg
                L -= seg
                continue
            # partial segment: bytes 1..3 cost 1 each, the 4th costs 2
            take = min(rem, 3) if seg >= 4 else rem
            return k + take
        if rem == 0:
            return k
    return k


def pack_blocks(data, cap, chunk=None):
    """Greedy packing rule of C04: list of consumed lengths per block.
    chunk=None: --sequential (whole input); else chunk size in bytes."""
    out = []
    pieces = [data] if chunk is None else \
        [data[i:i + chunk] for i in range(0, len(data), chunk)]
    for pc in pieces:
        pos = 0
        while pos < len(pc):
            k = rle_len_steps(pc, cap, pos)
            if k <= 0:
                raise AssertionError('pack made no progress')
            out.append(k)
            pos += k
    return out


# ---------------------------------------------------------------- planting
# A block whose Huffman-coded symbol data spells an arbitrary bit string:
# unary-style complete code over 20 symbols
#   m1..m17 : '0', '10', ..., 1^16 0   (MTF positions 1..17, one byte each)
#   EOB     : 1^17 0 (18 bits)   RUNA: 1^18 0   RUNB: 1^18 1 (19 bits)
# so any bit string without 17 consecutive ones tokenises into MTF symbols
# only (no runs, no EOB): the block size equals the number of tokens.
PLANT_USED = list(range(0x41, 0x41 + 18))
PLANT_LENS = [19, 19] + list(range(1, 18)) + [18]


def plant_tokenise(bits):
    """bit list -> symbols (2..18); the string is closed with a '0'."""
    syms = []
    r = 0
    for b in list(bits) + [0]:
        if b:
            r += 1
            if r >= 17:
                raise ValueError('17 consecutive ones in payload')
        else:
            syms.append(r + 2)       # m_{r+1} has symbol index r+2
            r = 0
    return syms


def make_planted_block(w, payload_bits, pre=0, post=8, rng=None, level=9):
    """Append a VALID block whose coded data contains `payload_bits`
    (starting after `pre` one-bit filler tokens).  Returns info incl. the
    plaintext this block decodes to and the bit offset of the payload."""
    rng = rng or random.Random(0)
    syms = [2] * pre
    body = plant_tokenise(payload_bits)
    tail = [rng.randrange(2, 19) for _ in range(post)]
    allsyms = syms + body + tail
    eob = 19
    # decode our own symbols to get the plaintext / crc / a usable origptr
    last = un_mtf_rle2(PLANT_USED, allsyms + [eob], level * 100000)
    n = len(last)
    plain = None
    for op in range(n):
        blk = ibwt(last, op)
        try:
            plain = unrle1(blk)
            break
        except Reject:
            continue
    if plain is None:
        raise ValueError('no usable origptr')
    crc = bzcrc(plain)
    start = len(w.bits)
    w.put(48, BLOCK_MAGIC, 'block_magic')
    w.put(32, crc, 'block_crc')
    w.put(1, 0)
    w.put(24, op)
    big = 0
    small = [0] * 16
    for c in PLANT_USED:
        big |= 1 << (15 - (c >> 4))
        small[c >> 4] |= 1 << (15 - (c & 15))
    w.put(16, big)
    for i in range(16):
        if big & (1 << (15 - i)):
            w.put(16, small[i])
    ng = (len(allsyms) + 1 + 49) // 50
    w.put(3, 2)
    w.put(15, ng)
    w.raw('0' * ng)
    for _ in range(2):
        st, bits = delta_bits(PLANT_LENS)
        w.put(5, st)
        w.raw(bits)
    codes = canon_codes(PLANT_LENS)
    payload_at = None
    for i, s in enumerate(allsyms + [eob]):
        if i == pre:
            payload_at = len(w.bits)
        w.put(PLANT_LENS[s], codes[s])
    return {'start': start, 'end': len(w.bits), 'crc': crc, 'plain': plain,
            'payload_at': payload_at, 'nblock': n}


def block_bits(plain, level=9, rng=None, **kw):
    """bits (list) of one complete block for `plain`, from its magic on."""
    w = BitWriter()
    make_block(w, plain, level, rng, **kw)
    return list(w.bits)


def num_bits(n, v):
    return [(v >> i) & 1 for i in range(n - 1, -1, -1)]


# ---------------------------------------------------------------- raw blocks
def run_syms(n):
    """bijective base-2 digits (RUNA=0, RUNB=1) of a run length n >= 1."""
    out = []
    while n > 0:
        if n & 1:
            out.append(0)
            n = (n - 1) >> 1
        else:
            out.append(1)
            n = (n - 2) >> 1
    return out


def make_raw_block(w, used, lens_list, selectors, syms, extra_selectors=0,
                   sent_syms=None):
    """Append a block given directly as a symbol stream (bzip2 numbering,
    WITHOUT the EOB, which is appended).  The last column is whatever the
    symbols decode to; origPtr is chosen so that un-RLE1 succeeds; the CRC is
    that of the resulting plaintext.  Returns info with 'plain'."""
    alpha = len(used) + 2
    eob = alpha - 1
    last = un_mtf_rle2(used, list(syms) + [eob], 900000)
    n = len(last)
    plain = None
    for op in range(n):
        try:
            plain = unrle1(ibwt(last, op))
            break
        except Reject:
            continue
    if plain is None:
        raise ValueError('no usable origptr')
    crc = bzcrc(plain)
    start = len(w.bits)
    w.put(48, BLOCK_MAGIC, 'block_magic')
    w.put(32, crc, 'block_crc')
    w.put(1, 0)
    w.put(24, op)
    big = 0
    small = [0] * 16
    for c in used:
        big |= 1 << (15 - (c >> 4))
        small[c >> 4] |= 1 << (15 - (c & 15))
    w.put(16, big)
    for i in range(16):
        if big & (1 << (15 - i)):
            w.put(16, small[i])
    # sent_syms: transmit these symbols instead (CRC / origPtr stay those of
    # `syms`): a block that decodes to `syms`' content only under a faulty
    # reading of the symbols actually present
    allsyms = list(sent_syms if sent_syms is not None else syms) + [eob]
    ng = (len(allsyms) + 49) // 50
    sel = list(selectors)[:ng] + [0] * max(0, ng - len(selectors))
    sel += [0] * extra_selectors
    w.put(3, len(lens_list))
    w.put(15, len(sel))
    order = list(range(6))
    for s in sel:
        p = order.index(s)
        order.pop(p)
        order.insert(0, s)
        w.raw('1' * p + '0')
    for ls in lens_list:
        st, bits = delta_bits(ls)
        w.put(5, st)
        w.raw(bits)
    codes = [canon_codes(ls) for ls in lens_list]
    data_at = len(w.bits)
    for g in range(ng):
        t = sel[g]
        for s in allsyms[g * 50:(g + 1) * 50]:
            w.put(lens_list[t][s], codes[t][s])
    return {'start': start, 'end': len(w.bits), 'crc': crc, 'plain': plain,
            'nblock': n, 'data_at': data_at, 'groups': ng}


def worst_case_block(w, ngroups=60, extra_selectors=0, nused=19):
    """Every symbol of every group costs 20 bits (1000 bits per group, the
    maximum the format allows): a 'comb' code 1,2,...,19,20,20 in which the
    two 20-bit code words belong to the deepest MTF position and EOB, and a
    last column that always touches the least recently used byte."""
    used = list(range(0x30, 0x30 + nused))
    alpha = nused + 2
    lens = [0] * alpha
    # symbols 0..alpha-3 get 1..alpha-2, symbols alpha-2 (deepest MTF) and
    # alpha-1 (EOB) get alpha-1 == 20 for nused == 19
    for s in range(alpha - 2):
        lens[s] = s + 1
    lens[alpha - 2] = alpha - 1
    lens[alpha - 1] = alpha - 1
    assert complete(lens), lens
    deepest = alpha - 2          # MTF position nused-1
    syms = [deepest] * (ngroups * 50 - 1)
    return make_raw_block(w, used, [lens, lens], [0] * ngroups, syms,
                          extra_selectors=extra_selectors)
