# Token-level precedence parser for the C expression subset used by lbzip2's
# guards and formulas -> Lean term text.  Works on source text *before*
# preprocessing so that empty(q), peek(q), pos_eq(a,b) ... stay calls to a
# fixed vocabulary.  Anything outside the subset raises Unsupported, which the
# caller reports as a broken tie (never silently skipped).
import re


class Unsupported(Exception):
    pass


TOK = re.compile(
    r'\s*(?:(0[xX][0-9a-fA-F]+|\d+)[uUlL]*|([A-Za-z_]\w*)|'
    r'(->|<<|>>|<=|>=|==|!=|&&|\|\||[-+*/%<>!~&|^?:(),.\[\]]))')


def strip_comments(s):
    return re.sub(r'/\*.*?\*/', ' ', s, flags=re.S)


def tokens(s):
    out = []
    i = 0
    s = strip_comments(s)
    while i < len(s):
        m = TOK.match(s, i)
        if not m:
            if s[i:].strip() == '':
                break
            raise Unsupported('bad token at %r' % s[i:i + 20])
        i = m.end()
        if m.group(1):
            out.append(('num', int(m.group(1), 0)))
        elif m.group(2):
            out.append(('id', m.group(2)))
        else:
            out.append(('op', m.group(3)))
    return out


BIN = {'||': 1, '&&': 2, '|': 3, '^': 4, '&': 5, '==': 6, '!=': 6, '<': 7,
       '>': 7, '<=': 7, '>=': 7, '<<': 8, '>>': 8, '+': 9, '-': 9, '*': 10,
       '/': 10, '%': 10}


class P:
    def __init__(s, t):
        s.t = t
        s.i = 0

    def peek(s):
        return s.t[s.i] if s.i < len(s.t) else ('eof', None)

    def eat(s, v=None):
        k = s.peek()
        if v is not None and k[1] != v:
            raise Unsupported('expected %s got %s' % (v, k))
        s.i += 1
        return k

    def expr(s, minp=0):
        l = s.unary()
        while True:
            k = s.peek()
            if k[0] == 'op' and k[1] == '?' and minp <= 0:
                s.eat()
                a = s.expr(0)
                s.eat(':')
                b = s.expr(0)
                l = ('ite', l, a, b)
                continue
            if k[0] == 'op' and k[1] in BIN and BIN[k[1]] >= max(minp, 1):
                op = s.eat()[1]
                r = s.expr(BIN[op] + 1)
                l = ('bin', op, l, r)
                continue
            return l

    def unary(s):
        k = s.peek()
        if k == ('op', '!'):
            s.eat()
            return ('not', s.unary())
        if k == ('op', '-'):
            s.eat()
            return ('neg', s.unary())
        if k == ('op', '~'):
            s.eat()
            return ('cpl', s.unary())
        if k == ('op', '*'):
            s.eat()
            return s.unary()
        if k == ('op', '('):
            s.eat()
            e = s.expr(0)
            s.eat(')')
            return s.postfix(e)
        if k[0] == 'num':
            s.eat()
            return ('num', k[1])
        if k[0] == 'id':
            s.eat()
            e = ('id', k[1])
            return s.postfix(e)
        raise Unsupported('unexpected %s' % (k,))

    def postfix(s, e):
        while True:
            k = s.peek()
            if k == ('op', '('):
                s.eat()
                args = []
                if s.peek() != ('op', ')'):
                    args.append(s.expr(0))
                    while s.peek() == ('op', ','):
                        s.eat()
                        args.append(s.expr(0))
                s.eat(')')
                e = ('call', e, args)
                continue
            if k == ('op', '->') or k == ('op', '.'):
                s.eat()
                f = s.eat()[1]
                e = ('fld', e, f)
                continue
            return e


def parse(text):
    p = P(tokens(text))
    e = p.expr(0)
    if p.peek()[0] != 'eof':
        raise Unsupported('trailing tokens %s in %r' % (p.peek(), text))
    return e


def to_lean_bool(e, env):
    """Translate a C truth-valued expression to a Lean Bool term.
    env: dict with 'ids' (name -> lean term, typed Nat or Bool per 'bools'),
    'bools' (set of identifiers that are Bool), 'calls' (name -> (leanfn,
    result is bool?))."""
    k = e[0]
    if k == 'not':
        return '(!' + to_lean_bool(e[1], env) + ')'
    if k == 'bin' and e[1] in ('&&', '||'):
        return '(%s %s %s)' % (to_lean_bool(e[2], env), e[1],
                               to_lean_bool(e[3], env))
    if k == 'bin' and e[1] in ('<', '>', '<=', '>=', '==', '!='):
        op = {'<=': '≤', '>=': '≥', '!=': '≠', '==': '='}.get(e[1], e[1])
        if e[1] == '!=' and e[3] == ('id', 'NULL'):
            return '(%s).isSome' % to_lean_nat(e[2], env)
        return '(decide (%s %s %s))' % (to_lean_nat(e[2], env), op,
                                        to_lean_nat(e[3], env))
    if k == 'id':
        if e[1] in env.get('bools', ()):
            return env['ids'].get(e[1], 's.' + e[1])
        return '(decide (%s ≠ 0))' % to_lean_nat(e, env)
    if k == 'call':
        name = e[1][1]
        if name in env['calls']:
            fn, isb = env['calls'][name]
            t = '(%s %s)' % (fn, ' '.join(to_lean_nat(a, env) for a in e[2]))
            return t if isb else '(decide (%s ≠ 0))' % t
    raise Unsupported('not a boolean expression: %r' % (e,))


def to_lean_nat(e, env):
    k = e[0]
    if k == 'num':
        return str(e[1])
    if k == 'id':
        if e[1] in env.get('ids', {}):
            return env['ids'][e[1]]
        raise Unsupported('unknown identifier %s' % e[1])
    if k == 'fld':
        return '%s.%s' % (to_lean_nat(e[1], env), e[2])
    if k == 'call':
        name = e[1][1]
        if name in env['calls']:
            fn, isb = env['calls'][name]
            return '(%s %s)' % (fn, ' '.join(to_lean_nat(a, env)
                                             for a in e[2]))
        raise Unsupported('unknown call %s' % name)
    if k == 'ite':
        return '(if %s then %s else %s)' % (to_lean_bool(e[1], env),
                                            to_lean_nat(e[2], env),
                                            to_lean_nat(e[3], env))
    if k == 'bin':
        op = {'<<': '<<<', '>>': '>>>', '&': '&&&', '|': '|||',
              '^': '^^^'}.get(e[1], e[1])
        if e[1] in ('+', '-', '*', '/', '%', '<<', '>>', '&', '|', '^'):
            return '(%s %s %s)' % (to_lean_nat(e[2], env), op,
                                   to_lean_nat(e[3], env))
    raise Unsupported('unsupported arithmetic expression: %r' % (e,))
