"""Run the decoder-side campaign against the real binary and the oracles."""
import bz2

import bzformat as B
import camp_decode as C
import proc


def build_cases(ck, valid=True, malformed=True, heavy=False):
    V = C.gen_valid(ck.rng, ck.quick, heavy=heavy) if valid else []
    M = C.gen_malformed(ck.rng, ck.quick) if malformed else []
    cases = C.dedupe(V + M)
    big = []
    for c in cases:
        # decompression bombs: python ibwt on 46 MB is too slow; libbz2 is the
        # oracle there (flagged)
        if c.expect is not None and c.tag == 'full-block-18001-groups':
            big.append(c.name)      # expectation known from construction
        elif c.name in ('repo-ch255.bz2', 'repo-idx899999.bz2'):
            try:
                c.expect = B.libbz2_decode(c.data)
                c.why = None
            except B.Reject as e:
                c.expect = None
                c.why = str(e)
            big.append(c.name)
        else:
            C.oracle(c)
    return cases, big


def oracle_selfcheck(ck, cases):
    """strict accepts  =>  libbz2 accepts with the same bytes.  A failure here
    is a broken oracle (machinery), reported as broken tie, not as a
    property verdict."""
    bad = 0
    for c in cases:
        if c.why and c.why.startswith('ORACLE-EXC'):
            ck.broken.append('oracle exception on %s: %s' % (c.name, c.why))
            bad += 1
        if c.expect is not None and c.data:
            try:
                d = B.libbz2_decode(c.data)
            except B.Reject:
                d = None
            if d != c.expect:
                ck.broken.append('oracle disagrees with libbz2 on ' + c.name)
                bad += 1
    return bad


def lean_oracle_check(ck, cases, limit=400, maxlen=6000):
    """Cross-check the Python oracle with the Lean Spec through the driver
    (`decode <hex>`), on the small cases.  Returns number compared, or None
    if the driver does not know the command yet."""
    import os
    import subprocess
    drv = ck.driver()
    if not os.path.exists(drv):
        return None
    small = [c for c in cases if 0 < len(c.data) <= maxlen and
             (c.expect is None or len(c.expect) <= 20000)][:limit]
    if not small:
        return 0
    lines = ['decode ' + c.data.hex() for c in small]
    r = subprocess.run([drv], input='\n'.join(lines) + '\n', text=True,
                       stdout=subprocess.PIPE, stderr=subprocess.PIPE,
                       timeout=1200)
    rep = r.stdout.split('\n')
    if rep and rep[0] == 'bad-op':
        return None
    n = 0
    for c, line in zip(small, rep):
        n += 1
        if c.expect is not None:
            want = 'ok ' + (c.expect.hex() if c.expect else '-')
            if line != want:
                ck.broken.append('Lean Spec disagrees with the Python oracle '
                                 'on %s (python accepts, lean: %s)' %
                                 (c.name, line[:40]))
        else:
            if not line.startswith('err'):
                ck.broken.append('Lean Spec disagrees with the Python oracle '
                                 'on %s (python rejects %s, lean: %s)' %
                                 (c.name, c.why, line[:40]))
    return n


def run(ck, exe, cases, args=('-d', '-n2'), env=None, timeout=60):
    jobs = [dict(exe=exe, args=list(args), data=c.data, timeout=timeout,
                 env=env) for c in cases]
    return proc.run_many(jobs)


def run_configs(ck, exe, cases, timeout=60):
    """One run per case under a random decompression configuration (input /
    output granularity, slot count, worker count, perturbation seed)."""
    import camp_sched as S
    rng = ck.rng
    jobs = []
    confs = []
    for c in cases:
        big = len(c.data) > 20000 or (c.expect is not None and
                                      len(c.expect) > 50000)
        env = S.config_env(rng, big=big)
        n = rng.choice([1, 2, 3, 4])
        jobs.append(dict(exe=exe, args=['-d', '-n%d' % n], data=c.data,
                         timeout=timeout, env=env))
        confs.append((n, env))
    return proc.run_many(jobs), confs
