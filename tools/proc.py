"""Running the real lbzip2 binary on many inputs in parallel."""
import os
import signal
import subprocess
from concurrent.futures import ThreadPoolExecutor


class Res:
    __slots__ = ('status', 'sig', 'out', 'err', 'timeout')

    def __init__(self, status, sig, out, err, timeout):
        self.status = status      # exit status or None
        self.sig = sig            # terminating signal or None
        self.out = out
        self.err = err
        self.timeout = timeout

    def code(self):
        if self.timeout:
            return 'timeout'
        if self.sig is not None:
            return 'sig%d' % self.sig
        return 'exit%d' % self.status

    def __repr__(self):
        return '<%s out=%d err=%r>' % (self.code(), len(self.out),
                                       self.err[:80])


def run1(exe, args, data=b'', env=None, timeout=60, cwd=None, argv0=None):
    e = dict(os.environ)
    for k in list(e):
        if k in ('LBZIP2', 'BZIP2', 'BZIP') or k.startswith('LBZIP2_VERIF'):
            del e[k]
    if env:
        e.update(env)
    try:
        p = subprocess.Popen([argv0 or exe] + list(args), executable=exe,
                             stdin=subprocess.PIPE, stdout=subprocess.PIPE,
                             stderr=subprocess.PIPE, env=e, cwd=cwd,
                             start_new_session=True)
    except OSError as ex:
        return Res(None, None, b'', str(ex).encode(), False)
    try:
        out, err = p.communicate(data, timeout=timeout)
        to = False
    except subprocess.TimeoutExpired:
        try:
            os.killpg(p.pid, signal.SIGKILL)
        except OSError:
            pass
        out, err = p.communicate()
        to = True
    rc = p.returncode
    if rc is not None and rc < 0:
        return Res(None, -rc, out, err, to)
    return Res(rc, None, out, err, to)


def run_many(jobs, workers=16):
    """jobs: list of dicts of run1 keyword arguments (with 'exe','args').
    Returns results in order."""
    def f(j):
        return run1(**j)
    with ThreadPoolExecutor(max_workers=workers) as ex:
        return list(ex.map(f, jobs))
