#!/usr/bin/env python3
"""Writes /verif/MANIFEST.json from the table below (one place to keep the
per-property claims current).  A property is listed as a check only when
checks/<id>.py exists; everything else goes to not_applicable with the reason
'no check built yet' (kept current by re-running this script)."""
import json
import os

HERE = os.path.dirname(os.path.abspath(__file__))
VERIF = os.path.dirname(HERE)

TB = ('Trusted: Lean 4.33 kernel; axioms propext/Quot.sound/Classical.choice '
      'only (audited per theorem on every run, no sorry/native_decide); the '
      'translator tools/extract.py (Gen/*.lean regenerated from /repo/src on '
      'every run); the correspondence harness, generators, gcc/clang and '
      'sanitizers. ')

P = {
 'C01': dict(
  cat='proof', tech='Lean 4 whole-file round-trip theorem (compressFile model, contract-abstracted BWT/table choice, proved satisfiable) composed from stage inverses and lifted over the scheduler model + differential correspondence (in-process stages, real divbwt vs proved BWT, byte-for-byte whole files) + round-trip campaign',
  text='Lean theorems for every invertible stage of the compressor for all inputs (RLE1 round trip and greedy packing of collect(); do_mtf = reference MTF/zero-run coding and its inverse; canonical code assignment and decode∘encode; transmit(): the strict reference parser recovers every field, bit count = 8·out_expect_len); on the decoder side retrieve/decode/emit are proved equal to the reference block decoder; the hand models are tied to the C functions by in-process differential runs, and the whole pipeline by a process-level round-trip campaign (lbzip2→lbzip2 and lbzip2→libbz2) over levels, --sequential, worker counts, perturbed schedules and input/output buffer sizes. Whole file: roundtrip / roundtrip_gen (Spec.decodeFile (compressFile level seq input choose) = ok input for every input, level, mode and every choice function meeting the decidable contract ChoicesOK), roundtrip_naive (unconditional for the rotation-sort BWT, whose inversion by the format\'s inverse BWT is proved), assemble_sched / roundtrip_sched (the file written by any terminated run of the scheduler model is compressFile), Lbzip2.expand_compress and sched_roundtrip (through the model of lbzip2 -d and its scheduler).',
  note=TB + 'Partial: divbwt.c and the table chooser (EM clustering, package_merge) enter only through the contract ChoicesOK, which is evaluated per run on the real code\'s choices (w24_bwt: real divbwt() in-process vs the proved BWT, exhaustive small scope + adversaries; w23_roundtrip: choices read back from real streams, model then reproduces the real file byte for byte), not proved of the C code; thread timing is perturbed, not enumerated.',
  ref='6 C01'),
 'C02': dict(
  cat='proof', tech='Lean 4 theorem that the strict inspector accepts every compressFile output with all C02 rules (inspect_compress) + arithmetic theorems over translated constants + strict inspector on every real output',
  text='Theorems over the constants/expressions regenerated from encode.c (cl0 = floor(log2) and the dummy second table is Kraft-complete for every alphabet size 3..258; selector count bound; tree_pad keeps the start length in 1..20). Whole file: inspect_compress / _gen / _aligned / _naive — the Lean strict inspector accepts compressFile … and reports one stream of the requested level ending at the last byte, one record per block of the packing rule, nblock in 1..level·100000, not randomised, origPtr < nblock, 2..6 Kraft-complete tables with lengths 1..20, 1..18002 selectors each naming a table. Every stream produced in the campaign (incl. full incompressible 900000-byte blocks) is parsed bit by bit by an independent strict inspector and decoded by libbz2.',
  note=TB + 'The Python inspector (tools/bzformat.py) is hand-written and cross-checked against libbz2 and the Lean Spec; the compressFile model is tied to the real encoder per run (w16_transmit in-process; w23_roundtrip byte-for-byte on whole files with the real choices fed in). Table/BWT choice enters through the contract ChoicesOK as in C01.',
  ref='6 C02'),
 'C03': dict(
  cat='proof', tech='Lean 4 inductive invariants over a transition-system model of the compression scheduler (guards translated from source) + determinism campaign',
  text='SchedC is a labelled transition system whose guards, priority order, thresholds and capacities are regenerated from compress.c/process.c; theorems hold for every worker count and every interleaving in both modes (sink order = next-chain from (0,0); output_eq: two terminated runs with any worker counts, slot totals and schedules write the same block sequence = the canonical sequential one; xread fills whole chunks under any read fragmentation; xwrite writes everything under any short-write pattern; File.file_eq / file_is_function: the BYTES of the file written by any terminated run equal compressFileGen level cap chunk mode input choose). The real binary is compared byte-for-byte against its -n1 run under random worker counts, perturbation seeds and plumbing (pipe, fragmented pipe, file stdin/stdout, FILE operand).',
  note=TB + 'Partial: the do_* bodies are hand-modelled (tie = hook-trace acceptance + output comparison); determinism of the per-block C functions is observed, not proved.',
  ref='6 C03'),
 'C04': dict(
  cat='proof', tech='Lean 4 proof of the collect() state machine against the greedy packing spec + exhaustive small-scope differential check',
  text='Model.collect (byte-step machine of collect(), resumable across buffers) is proved to consume exactly Spec.pack cap xs bytes and to produce Spec.rle1 of them, for every capacity, input and buffer split; the model is compared with the real collect() exhaustively on small alphabets/lengths/caps/splits and on long-run boundary cases, and real streams are checked block by block (CRC, RLE size) against the packing rule at levels 1..9 in both modes.',
  note=TB + 'The C collect() is tied to the model differentially (exhaustive for small scope, sampled beyond).',
  ref='6 C04'),
 'C05': dict(
  cat='proof', tech='Lean 4 whole-file soundness theorem of the decoder model (expand_sound) composed from block-level theorems over translated tables/parser + in-process and whole-file differential correspondence + malformed-stream campaign against a strict oracle',
  text='Soundness lemmas of the block decoder over the tables regenerated from decode.c/parse.c (windowed delta decoding = bit-by-bit reference with every intermediate length in 1..20; make_tree Kraft test and lookup; sliding-list MTF = list MTF; run accumulation; emitter = un-RLE with missing count rejected), composed into retrieve_sound (retrieve() OK ⇒ the strict reference parses the same block with the same end position, for every segmentation of the input) and block_decode_sound (retrieve+decode+emit+CRC ⇒ Spec.Bzip2.decodeBlock); tied in-process to the C functions; per run a field-aimed malformed-stream campaign: lbzip2 -d exits 0 ⇒ the strict oracle accepts and the bytes equal the reference decoding.',
  note=TB + 'Whole files: File.expand_sound / expand_rejects_malformed — the model of lbzip2 -d (Model.Expand.expandFile: header sniff, the translated Gen.parseStep over the bit FIFO, retrieve/decode/emit models, both CRC checks, trailing-data rules) accepts a byte string only if the strict reference decodes it to the same bytes; tied to the real binary on whole files per run (w22_expand). Oracle = tools/bzformat.py cross-checked with libbz2 and the Lean Spec.',
  ref='6 C05'),
 'C06': dict(
  cat='proof', tech='Lean 4 whole-file completeness theorem of the decoder model (expand_complete / expand_iff) + valid-stream generator campaign against a strict oracle',
  text='Completeness: retrieve_complete — everything the strict reference accepts is accepted by retrieve() with the same block, for every segmentation (the only other answer is MORE/ERR_EOF when fewer than 32 bits follow); every in-range delta path is accepted wherever the 6-bit windows fall; and a generator covering every degree of freedom of the format (2..6 random complete tables up to 20-bit codes, arbitrary selector sequences, surplus selectors, zig-zag deltas, randomised blocks, blocks at any bit offset, mixed-level concatenations, trailing non-header data, unused incomplete tables): oracle accepts ⇒ lbzip2 -d exits 0 with the same bytes, for several worker counts.',
  note=TB + 'Whole files: File.expand_complete / expand_iff (the decoder model and the strict reference accept exactly the same byte strings with the same output), expandFile_ne_fuel. Tie as C05.', ref='6 C06'),
 'C07': dict(
  cat='proof', tech='Lean 4 theorems: every byte string the reference does not decode is rejected by the decoder model under every schedule (File.damaged_rejected / damaged_never_terminates), and a rejection ends with status 1, a diagnostic and no output file (corrupt_rejected_cleanly) + rejection campaign (every truncation point, out-of-range fields with consistent CRCs, FILE operands, timeouts, ASan in thorough)',
  text='File.damaged_rejected / rejected_iff / damaged_never_terminates over the whole-file decoder model and its scheduler instantiation; corrupt_rejected_cleanly over the operand-loop model (status exactly 1, stderr, output removed); block_error_is_fatal / overfull_block_is_fatal / truncated_stream_is_error over the translated do_reorder / parse tail. The malformed campaign and every truncation point of multi-block/multi-stream files are run on stdin and as FILE operands under a timeout: status exactly 1, diagnostic printed, no signal, no output file left, input untouched.',
  note=TB + 'Partial: absence of crashes and hangs in the C program is observed (ASan/UBSan build in the thorough tier), not proved.',
  ref='6 C07'),
 'C08': dict(
  cat='proof', tech='Lean 4 index-bound theorems over translated extents + sanitizer runs of all campaigns',
  text='Index arithmetic of the buffer-handling code is proved inside the declared extents taken from Gen (sliding-list rows inside imtf_slide, shift ≤ 20, fast-path refills ≤ 32 words, selector/table extents, canonical lookup stops at k ≤ 20); all in-process harnesses and the whole program run under ASan+UBSan with asserts on over the compress/decompress campaigns.',
  note=TB + 'Partial by construction: no verified C semantics in this image; divbwt.c is covered by sanitizer runs on sort-adversary inputs only; uninitialised reads via valgrind in the thorough tier. The defect F5 (stale re-attach) found this way was repaired.',
  ref='6 C08'),
 'C09': dict(
  cat='proof', tech='Lean 4 split theorems for resumable decoders + scheduler refinement + configuration-matrix campaign',
  text='emit_split (output identical for every list of output buffer sizes), retrieve_split (result identical for every segmentation of the input words, fast path = slow path), SchedD output_eq (sink sequence independent of worker count, schedule and granularity) over guards regenerated from expand.c; the real binary is run over input granularities {4..262144} × output granularities {1..900000} × worker counts × perturbation seeds × {stdout, file, -c, -t} and compared with the default configuration and the oracle.',
  note=TB + 'Whole files: File.sched_output_is_expandFile / sched_output_indep — SchedD instantiated with the real parser/retriever models on the file\'s bits: every terminated run, whatever n, granularity, slots, candidates and schedule, writes expandFile\'s bytes. Header-parser suspension across buffers is part of expandFile\'s bit-FIFO proof; pthread semantics assumed.',
  ref='6 C09'),
 'C10': dict(
  cat='proof', tech='Lean 4 safety invariant over the expansion scheduler model with uninterpreted candidate set + planted-magic campaign',
  text='SchedD is parametric in an arbitrary set of scanner candidates and uninterpreted parse/retrieve functions; spec_safe: every buffer reaching the sink has base = head of order_q, which is the unwritten suffix of the sequential parse chain; bogus blocks are freed without reaching the sink. Streams with the 48-bit magic planted inside coded data (as complete decodable blocks), across input-block boundaries and in trailing data are decoded under many worker counts/granularities/seeds and compared with the oracle.',
  note=TB + 'Whole files: File.speculation_invisible / speculation_output / speculation_never_fails / speculation_never_rescues (arbitrary scanner findings on a concrete file, real parser/retriever models). The binary is tied to the model by trace acceptance on sampled runs and output comparison.',
  ref='6 C10'),
 'C11': dict(
  cat='proof', tech='Lean 4 inductive invariants (capacity, conservation, order, progress) for both scheduler models, guards/constants translated from source',
  text='For every worker count, input shape and interleaving of SchedC/SchedD: queue sizes within the pqueue_init/deque_init extents, resource conservation, stream order at the sink, and progress; numeric side conditions discharged on the regenerated constants. Hook assertions (LBZIP2_VERIF_CHECK) and trace acceptance tie the binary to the models; runs under timeouts with perturbation and scripted delays (the F3 deadlock schedule is replayed).',
  note=TB + 'Partial: pthread/kernel semantics assumed; expansion deadlock-freedom and unord_q capacity need EMIT_THRESH < total_out (true for every shipped slot formula); termination (lexicographic measures, no fairness assumption) and the wake-up discipline are proved for both schedulers, for decompression also on the refinement SchedDW (mutex holder, next_task, per-worker states, spurious wake-ups); every trace line incl. thread ids and xsignal events is replayed against the refined model. The lifecycle defects F2-F5 found through these models were repaired (known_findings.json).',
  ref='6 C11'),
 'C12': dict(
  cat='proof', tech='ownership discipline over the scheduler models + ThreadSanitizer campaign',
  text='race_free / owner_unique / guarded_under_lock / unlocked_phase_private over annotated footprints of every section of SchedC, the copy pipeline and SchedD (incl. input buffers are not freed while a job is attached); step_annotated / expand_step_annotated tie both annotations to the models (every transition lies in a section in progress and every shared variable it changes is written in that footprint); ThreadSanitizer builds of the whole program run the compression, decompression and -cdf campaigns with perturbation seeds as validation of the footprints against the code.',
  note=TB + 'Partial: the C memory model is not formalised; TSan sees only executed interleavings.',
  ref='6 C12'),
 'C13': dict(
  cat='proof', tech='Lean 4 memory bound as corollary of slot conservation + allocation accounting by LD_PRELOAD',
  text='liveBytes ≤ memBound(n) = n·perWorker for compression and decompression, independent of the input, from the conservation/capacity invariants with slot formulas from Gen; an LD_PRELOAD allocation shim measures peak live bytes and per-site live counts for inputs ×1/×4/×16 (including million-fold bombs) at several worker counts, for compression, -d and -t.',
  note=TB + 'Partial: RSS vs live bytes slack is measured; allocation sizes are parameters of the theorem (the check evaluates the bound with measured sizes).',
  ref='6 C13'),
 'C14': dict(
  cat='proof', tech='Lean 4: KMP automaton proof, whole-table decide +kernel, full correctness theorem of scan(); exhaustive table comparison + differential scan campaign',
  text='lps_step (generic KMP), mini_is_delta and big_is_mini8 (every entry of both translated tables), scan_correct/scan_ok_iff/scan_rescan: for every word list, buffered bits and skip, scan() reports exactly the first occurrence of the 48-bit pattern + 32 bits lying wholly inside the block after the effective start, else MORE with the block consumed. Tables are regenerated from scantab.h each run; the real scan() (ASan) is compared with the model and an independent Python oracle.',
  note=TB + 'scan() itself (60 lines) is hand-modelled; tie = differential runs (2·10^4 quick, 10^6 thorough) incl. every bit offset × live × skip family.',
  ref='6 C14'),
 'C15': dict(
  cat='proof', tech='Lean 4 whole-file theorem: every bit flip of every stored CRC field of every accepted file is rejected (over the decoder model built on the translated parse() step) + exhaustive per-file CRC bit-flip campaign incl. compensated flips and forged special CRC values',
  text='Over the Gen-translated parse switch: a stored stream CRC different from the computed one yields ERR_STRMCRC; the stored block CRC reaches do_reorder unchanged; per run every bit of every stored CRC field of a corpus (1..many blocks, 1..3 streams, scanner- and parser-found blocks) is flipped and lbzip2 -d must exit 1 with -n1 and -n4.',
  note=TB + 'Whole files: File.block_crc_flip_rejected / stream_crc_flip_rejected / crc_flip_never_terminates for every byte string the decoder accepts, every field found by the reference walk (crcFields) and every k < 32. do_reorder\'s comparison is a template checked verbatim against the source; the campaign is exhaustive per file, not over all files.',
  ref='6 C15'),
 'C16': dict(
  cat='proof', tech='Lean 4 invariant over the operand step sequence with fault/signal oracle + syscall fault injection (LD_PRELOAD)',
  text='Files model of main()\'s per-operand step sequence with an errno/signal oracle at every step: two_states, status, kill_prefix for all fault positions; the binary is run with faults injected at every close/fchown/fchmod/futimens/unlink/open index and a stride of read/write indices, SIGINT/SIGTERM/SIGKILL, and the final directory state is classified against the model\'s allowed outcomes and the property\'s dichotomy.',
  note=TB + 'Partial: POSIX semantics of signals/unlink/O_EXCL assumed; the shim emulates kernel signal generation for EPIPE/EFBIG.',
  ref='6 C16'),
 'C17': dict(
  cat='proof', tech='Lean 4 theorems over the translated suffix table and masks + full-grid file-system campaign',
  text='no_clobber, skip rules, naming rules and metadata theorems over Gen.suffixTable / masks; the grid mode × flags × operand kind × pre-existing output × suffixes × modes/timestamps is executed and compared with the model; skipped operands are re-run with an unusable stderr (descriptor 2 closed, /dev/full) and must leave the directory untouched.',
  note=TB + 'input_init/output_init are hand-modelled; tie = the grid campaign.',
  ref='6 C17'),
 'C18': dict(
  cat='proof', tech='Lean 4 fold/status theorems + terminal_restores from the scheduler invariants + combined-vs-separate campaign',
  text='runMany = fold of runOne carrying only the file system and the warned flag; status algebra; the scheduler statics are back at their initial values at termination (SchedC invariant); random operand sequences are processed in one invocation versus one each and compared.',
  note=TB + 'Partial: independence of per-run C statics outside the modelled ones is observed.',
  ref='6 C18'),
 'C19': dict(
  cat='proof', tech='Lean 4 copy-pipeline transition system (identity, termination, SIGUSR2 once) + -cdf campaign',
  text='sniff_iff over the translated magic test; copy_identity/copy_terminates/usr2_once for every fragmentation and interleaving of the copy pipeline; the binary is run with -cdf on sizes 0..5, 65535..65537, 131071..131073, 1 MiB, magic prefixes and near-misses, fragmented pipes and perturbation seeds.',
  note=TB + 'Partial: pthread/signal semantics assumed.', ref='6 C19'),
 'C20': dict(
  cat='proof', tech='Lean 4 proof that the optimal length-limited cost DP is a lower bound (checker soundness) + checker applied to every real table',
  text='optLL is proved attained and a lower bound over complete codes within the limit; the proven-sound checker is applied to every used table of every stream in the campaign (frequencies and lengths recovered from the stream) and to assign_codes in-process for every alphabet size 3..258 with adversarial frequency shapes.',
  note=TB + 'Partial: nothing is proved about package_merge itself; it is validated per output.',
  ref='6 C20'),
 'C21': dict(
  cat='proof', tech='Lean 4 model of the failure path (failfx/bailout/halt) + fault injection at every read/write index',
  text='terminates, never_zero, outcome, diagnostic_iff for every failing-call position, errno and interleaving; the binary is run with read/write failures (EPIPE, EIO, ENOSPC, EFBIG) injected by an LD_PRELOAD shim, real broken pipes and RLIMIT_FSIZE, under timeouts.',
  note=TB + 'Partial: promptness is a wall-clock observation; the shim emulates SIGPIPE/SIGXFSZ generation.',
  ref='6 C21'),
 'C22': dict(
  cat='proof', tech='Lean 4 theorems over the option tables translated from opts_setup + invocation-matrix campaign',
  text='env_prefix, mode_last_wins, cat_names, noop_insert, cluster_eq_separate, c_t_conflict over Gen.longOpts/shortOpts/evNames/program names for all token lists; the binary is run under all six names × spellings × orders × environment placement and compared with the model.',
  note=TB + 'List building and "--" handling are hand-modelled; tie = the campaign.',
  ref='6 C22'),
}


def main():
    checks = []
    na = []
    for pid in sorted(P):
        d = P[pid]
        if os.path.exists(os.path.join(VERIF, 'checks', pid + '.py')):
            checks.append({
                'property_id': pid,
                'quick_cmd': './check %s --tier quick' % pid,
                'thorough_cmd': './check %s --tier thorough' % pid,
                'evidence_file': 'evidence/%s.json' % pid,
                'replay_cmd_template': './check replay {path}',
                'engine': 'lean4+correspondence',
                'level_claimed': {'category': d['cat'], 'text': d['text'],
                                  'design_ref': 'DESIGN.md section ' + d['ref']},
                'level_note': d['note'],
                'technique': d['tech'],
            })
        else:
            na.append({'property_id': pid,
                       'reason': 'no check registered yet (work in progress; '
                                 'machine-checked proof applies, see DESIGN.md '
                                 'section ' + d['ref'] + ')'})
    m = {
        'version': 1,
        'setup_cmd': './check setup',
        'hooks': {
            'guard': 'KJN_LBZIP2_VERIF',
            'enable': 'checks compile /repo/src/*.c themselves with '
                      '-DKJN_LBZIP2_VERIF (tools/vlib.py build_lbzip2/cc); '
                      'behaviour changes only when an LBZIP2_VERIF_* '
                      'environment variable is set (src/verif.h)',
            'baseline_off_cmd': 'cmake -G Ninja -B /repo/_build -S /repo '
                                '-DCMAKE_BUILD_TYPE=RelWithDebInfo && cmake '
                                '--build /repo/_build && ctest --test-dir '
                                '/repo/_build -j8 --timeout 900',
            'source_commits': ['59a5012', 'f49e69e', 'f5b7632', '371cd68', '7b2f8ad'],
            'add_only': True,
        },
        'engines': [{
            'name': 'lean4+correspondence',
            'path': 'lean/ (Lean 4 library LbzVerif + driver lbzdrv), '
                    'tools/ (translator, generators), harness/, checks/',
            'serves_properties': [c['property_id'] for c in checks],
            'kind_free_text': 'machine-checked proof in Lean 4 over models '
                              'tied to the source by a translator (Gen) and '
                              'by differential correspondence checks',
        }],
        'checks': checks,
        'not_applicable': na,
        'notes': 'All checks: ./check <id> --tier quick|thorough; VERIF_SEED '
                 'seeds every random choice. Genuine defects found: see '
                 'known_findings.json and DESIGN.md section 7.',
    }
    with open(os.path.join(VERIF, 'MANIFEST.json'), 'w') as f:
        json.dump(m, f, indent=1)
    print('checks:', [c['property_id'] for c in checks])
    print('not yet:', [n['property_id'] for n in na])


if __name__ == '__main__':
    main()
