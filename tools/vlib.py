"""Shared machinery of the /verif checks.

A check script does:

    ck = Check('C14')
    ck.regen()                       # translator -> Gen/*.lean   (tie T)
    ck.lean(['LbzVerif.Props.C14'])  # lake build + axiom audit   (theorems)
    exe = ck.cc('h_scan', ['harness/h_scan.c'])   # harness from /repo's tree
    ... correspondence / property campaign, calling ck.violation(...) ...
    ck.finish(coverage)              # writes evidence, prints verdict, exits

Exit status 0 = held, 1 = violation (a line `VIOLATION property=<id>
replay=<path>` was printed for each).  Known findings listed in
/verif/known_findings.json print `KNOWN-FINDING: ...` instead.
"""
import atexit
import fcntl
import hashlib
import json
import os
import random
import re
import shutil
import subprocess
import sys
import tempfile
import threading
import time

HERE = os.path.dirname(os.path.abspath(__file__))
VERIF = os.path.dirname(HERE)
REPO = os.environ.get('LBZ_REPO', '/repo')
LEAN = os.environ.get('LBZ_LEAN') or os.path.join(VERIF, 'lean')
sys.path.insert(0, HERE)

ALLOWED_AXIOMS = {'propext', 'Quot.sound', 'Classical.choice'}
FORBIDDEN = re.compile(
    r'\b(sorry|admit|native_decide|bv_decide|implemented_by|unsafe|'
    r'maxHeartbeats\s+0)\b|^\s*axiom\s', re.M)

CDEFS = ['-D_XOPEN_SOURCE=700', '-D_FILE_OFFSET_BITS=64',
         '-DPACKAGE_NAME="lbzip2"', '-DPACKAGE_VERSION="devel"',
         '-DKJN_LBZIP2_VERIF']


def sh(cmd, **kw):
    kw.setdefault('stdout', subprocess.PIPE)
    kw.setdefault('stderr', subprocess.STDOUT)
    kw.setdefault('text', True)
    return subprocess.run(cmd, **kw)


def strip_lean_comments(s):
    # block comments (nested) then line comments
    out = []
    depth = 0
    i = 0
    while i < len(s):
        if s.startswith('/-', i):
            depth += 1
            i += 2
            continue
        if depth and s.startswith('-/', i):
            depth -= 1
            i += 2
            continue
        if not depth:
            out.append(s[i])
        i += 1
    s = ''.join(out)
    return re.sub(r'--.*', '', s)


class Check:
    def __init__(self, pid, level='proof'):
        self.pid = pid
        self.level = level
        self.t0 = time.time()
        # A caller may have started us with SIGINT/SIGTERM/... ignored (e.g.
        # as an asynchronous shell job); lbzip2 children would inherit that
        # and the signal-related checks would see a different program.
        import signal
        for sg in (signal.SIGINT, signal.SIGTERM, signal.SIGQUIT,
                   signal.SIGHUP, signal.SIGUSR1, signal.SIGUSR2):
            try:
                if signal.getsignal(sg) == signal.SIG_IGN:
                    signal.signal(sg, signal.SIG_DFL)
            except (OSError, ValueError):
                pass
        try:
            signal.pthread_sigmask(signal.SIG_UNBLOCK,
                                   {signal.SIGINT, signal.SIGTERM,
                                    signal.SIGUSR1, signal.SIGUSR2,
                                    signal.SIGPIPE, signal.SIGXFSZ})
        except (OSError, ValueError, AttributeError):
            pass
        self.tier = os.environ.get('VERIF_TIER', 'quick')
        for i, a in enumerate(sys.argv):
            if a == '--tier' and i + 1 < len(sys.argv):
                self.tier = sys.argv[i + 1]
        if self.tier not in ('quick', 'thorough'):
            self.tier = 'quick'
        try:
            self.seed = int(os.environ.get('VERIF_SEED', '1'))
        except ValueError:
            self.seed = 1
        self._rngs = {}
        self.tmp = tempfile.mkdtemp(prefix='lbzverif-%s-' % pid)
        self._drv_lock = threading.Lock()
        atexit.register(lambda: shutil.rmtree(self.tmp, ignore_errors=True))
        self.violations = []
        self.known_hits = []
        self.notes = []
        self.obligations = []      # theorem names audited
        self.undischarged = []
        self.broken = []           # broken proof / tie / correspondence names
        self.gen_report = None
        self.assumptions = []
        self.trusted = ['Lean 4.33.0 kernel',
                        'axioms: propext, Quot.sound, Classical.choice only '
                        '(audited per theorem)',
                        'translator tools/extract.py + tools/cexpr.py',
                        'gcc/clang, sanitizers, Python harness']
        with open(os.path.join(VERIF, 'known_findings.json')) as f:
            self.known = json.load(f)
        self.quick = self.tier == 'quick'

    @property
    def rng(self):
        """One PRNG per thread, each derived from VERIF_SEED (and the thread
        name for library threads), so that a run replays exactly."""
        import threading
        import zlib
        name = threading.current_thread().name
        if name not in self._rngs:
            salt = 0 if name == 'MainThread' else zlib.crc32(name.encode())
            self._rngs[name] = random.Random(
                self.seed * 1000003 + int(self.pid[1:]) + salt * 7919)
        return self._rngs[name]

    # ------------------------------------------------------------------ log
    def log(self, *a):
        print('[%s %6.1fs]' % (self.pid, time.time() - self.t0), *a,
              flush=True)

    # ------------------------------------------------------------ translator
    def regen(self):
        import extract
        ok, rep = extract.run(write=True)
        self.gen_report = rep
        changed = [k for k, v in rep['files'].items() if v]
        if changed:
            self.log('Gen files rewritten:', ', '.join(changed))
        if rep['gen_changes']:
            self.log('Gen differs from committed snapshot:',
                     ', '.join(rep['gen_changes']))
        if rep['fingerprint_changes']:
            self.log('source fingerprints changed:',
                     ', '.join(rep['fingerprint_changes']))
        if not ok:
            for e in rep['errors']:
                self.log('translator stopped:', e)
                self.broken.append('translator: ' + e)
        return ok

    def fingerprint_changed(self, *prefixes):
        if not self.gen_report:
            return False
        return any(any(c.startswith(p) for p in prefixes)
                   for c in self.gen_report['fingerprint_changes'])

    # ------------------------------------------------------------------ lean
    def _lake(self, args, timeout=3600):
        lock = open(os.path.join(LEAN, '.build.lock'), 'w')
        fcntl.flock(lock, fcntl.LOCK_EX)
        try:
            return sh(['lake'] + args, cwd=LEAN, timeout=timeout)
        finally:
            fcntl.flock(lock, fcntl.LOCK_UN)
            lock.close()

    def lean(self, modules, audit=True, extra_targets=('lbzdrv',)):
        """Build the property modules (re-checking every theorem against the
        regenerated Gen) and audit axioms.  Returns True iff everything
        compiled and the audit is clean."""
        ok = True
        r = self._lake(['build'] + list(modules) + list(extra_targets))
        if r.returncode != 0:
            ok = False
            errs = [l for l in r.stdout.splitlines()
                    if 'error' in l.lower()][:12]
            self.log('lake build FAILED:\n  ' + '\n  '.join(errs))
            names = sorted(set(re.findall(r'LbzVerif/[\w/]+\.lean:\d+', r.stdout)))
            self.broken.append('lean build: ' + (', '.join(names[:6]) or
                                                 'see log'))
            with open(os.path.join(self.tmp, 'lake.log'), 'w') as f:
                f.write(r.stdout)
            self.lake_log = r.stdout
            # try to audit whichever modules still build individually
        self.grep_forbidden()
        if audit and ok:
            for m in modules:
                if not self.audit(m):
                    ok = False
        if ok and self.tier == 'thorough' and not os.environ.get('LBZ_NO_LEANCHECKER'):
            # independent re-check of the compiled property modules by the
            # toolchain's stand-alone kernel checker (one module per call)
            n = 0
            for m in modules:
                r = self._lake(['env', 'leanchecker', m], timeout=1800)
                if r.returncode != 0:
                    ok = False
                    self.log('leanchecker REJECTS %s:\n%s' % (m, r.stdout[-1500:]))
                    self.broken.append('leanchecker: ' + m)
                else:
                    n += 1
            self.log('leanchecker re-checked %d module(s)' % n)
            self.leanchecked = n
        return ok

    def props_modules(self, pid=None):
        """Property modules present for this property: Props/Cxx.lean and
        Props/Cxx/*.lean."""
        pid = pid or self.pid
        out = []
        base = os.path.join(LEAN, 'LbzVerif', 'Props')
        if os.path.exists(os.path.join(base, pid + '.lean')):
            out.append('LbzVerif.Props.' + pid)
        d = os.path.join(base, pid)
        if os.path.isdir(d):
            for fn in sorted(os.listdir(d)):
                if fn.endswith('.lean'):
                    out.append('LbzVerif.Props.%s.%s' % (pid, fn[:-5]))
        return out

    def grep_forbidden(self):
        bad = []
        for root, _, files in os.walk(os.path.join(LEAN, 'LbzVerif')):
            for fn in files:
                if fn.endswith('.lean'):
                    p = os.path.join(root, fn)
                    with open(p) as f:
                        s = strip_lean_comments(f.read())
                    for m in FORBIDDEN.finditer(s):
                        bad.append('%s: %s' % (os.path.relpath(p, LEAN),
                                               m.group(0).strip()))
        if bad:
            self.log('forbidden constructs:', bad[:10])
            self.broken.append('forbidden construct: ' + '; '.join(bad[:5]))
        return not bad

    def audit(self, module):
        """#print axioms on every theorem declared in `module`."""
        src = '''import Lean
import %(m)s
open Lean in
run_cmd do
  let env ← getEnv
  let some idx := env.getModuleIdx? `%(m)s | throwError "module not found"
  let mut names : Array Name := #[]
  for (n, ci) in env.constants.map₁.toList do
    if env.getModuleIdxFor? n == some idx then
      if let .thmInfo _ := ci then
        if !n.isInternal then names := names.push n
  for n in names.qsort (fun a b => a.toString < b.toString) do
    let axs ← Lean.collectAxioms n
    IO.println s!"THM {n} AXIOMS {axs.toList}"
''' % {'m': module}
        p = os.path.join(self.tmp, 'audit_%s.lean' % module.replace('.', '_'))
        with open(p, 'w') as f:
            f.write(src)
        r = sh(['lake', 'env', 'lean', p], cwd=LEAN, timeout=1200)
        ok = r.returncode == 0
        n = 0
        for line in r.stdout.splitlines():
            m = re.match(r'THM (\S+) AXIOMS \[(.*)\]', line)
            if not m:
                continue
            n += 1
            name = m.group(1)
            axs = [a.strip() for a in m.group(2).split(',') if a.strip()]
            self.obligations.append(name)
            extra = [a for a in axs if a not in ALLOWED_AXIOMS]
            if extra:
                ok = False
                self.undischarged.append(name)
                self.log('theorem %s depends on axioms %s' % (name, extra))
                self.broken.append('axiom audit: %s uses %s' % (name, extra))
        if r.returncode != 0 or n == 0:
            ok = False
            self.log('axiom audit of %s failed:\n%s' % (module,
                                                       r.stdout[-1500:]))
            self.broken.append('axiom audit of %s did not run' % module)
        else:
            self.log('audited %d theorems of %s' % (n, module))
        return ok

    def require_theorems(self, names):
        """The named theorems must exist among the audited obligations (so a
        property theorem cannot silently disappear)."""
        have = set(self.obligations)
        for n in names:
            if n not in have:
                self.log('required theorem missing:', n)
                self.broken.append('theorem missing: ' + n)

    def driver(self):
        """Path of the model driver.  The built binary is copied (under the
        build lock) into this check's own scratch directory, so that another
        check relinking it cannot remove it from under a running campaign."""
        if os.environ.get('LBZDRV'):
            return os.environ['LBZDRV']
        built = os.path.join(LEAN, '.lake', 'build', 'bin', 'lbzdrv')
        mine = os.path.join(self.tmp, 'lbzdrv')
        with self._drv_lock:
            try:
                fresh = (os.path.exists(mine) and
                         os.path.getmtime(mine) >= os.path.getmtime(built))
            except OSError:
                fresh = os.path.exists(mine)
            if fresh:
                return mine
            lock = open(os.path.join(LEAN, '.build.lock'), 'w')
            fcntl.flock(lock, fcntl.LOCK_EX)
            try:
                if os.path.exists(built):
                    tmpn = mine + '.new'
                    shutil.copy2(built, tmpn)
                    os.replace(tmpn, mine)
            finally:
                fcntl.flock(lock, fcntl.LOCK_UN)
                lock.close()
        return mine if os.path.exists(mine) else built

    # --------------------------------------------------------------- C build
    def cc(self, name, sources, flags=(), asan=True, ndebug=False, cxx=False,
           libs=('-lpthread',), compiler=None):
        out = os.path.join(self.tmp, name)
        cmd = [compiler or ('g++' if cxx else 'gcc'), '-O1', '-g', '-w',
               '-I' + os.path.join(REPO, 'src'),
               '-I' + os.path.join(VERIF, 'harness')] + CDEFS
        if asan:
            cmd += ['-fsanitize=address,undefined',
                    '-fno-sanitize-recover=all', '-fno-omit-frame-pointer']
        if ndebug:
            cmd.append('-DNDEBUG')
        cmd += list(flags)
        cmd += ['-o', out]
        cmd += [s if os.path.isabs(s) else os.path.join(VERIF, s)
                for s in sources]
        cmd += list(libs)
        r = sh(cmd, timeout=600)
        if r.returncode != 0:
            self.log('C build of %s FAILED:\n%s' % (name, r.stdout[-3000:]))
            self.broken.append('harness build: ' + name)
            return None
        return out

    def build_lbzip2(self, name='lbzip2', asan=False, tsan=False, ndebug=True,
                     flags=()):
        """The real program from /repo's working tree with hooks compiled in."""
        fl = list(flags)
        if tsan:
            fl += ['-fsanitize=thread']
        srcs = sorted(os.path.join(REPO, 'src', f)
                      for f in os.listdir(os.path.join(REPO, 'src'))
                      if f.endswith('.c'))
        return self.cc(name, srcs, flags=fl, asan=asan, ndebug=ndebug,
                       compiler='clang' if tsan else None)

    # ------------------------------------------------------------ violations
    def is_known(self, signature):
        for k in self.known.get('known', []):
            if k['property'] == self.pid and k['signature'] == signature:
                return k
        return None

    def violation(self, what, replay, signature=None, no_input=False):
        """Record a violation.  `replay` is a JSON-able dict describing the
        failing input / schedule / theorem; `signature` identifies a known
        finding."""
        if signature is not None:
            k = self.is_known(signature)
            if k is not None:
                if signature not in self.known_hits:
                    self.known_hits.append(signature)
                    print('KNOWN-FINDING: property=%s %s' %
                          (self.pid, k['what']), flush=True)
                return
        os.makedirs(os.path.join(VERIF, 'replays'), exist_ok=True)
        body = dict(replay)
        body['property'] = self.pid
        body['what'] = what
        body['no_failing_input_found'] = bool(no_input)
        blob = json.dumps(body, sort_keys=True, default=str)
        h = hashlib.sha1(blob.encode()).hexdigest()[:12]
        path = os.path.join(VERIF, 'replays', '%s-%s.json' % (self.pid, h))
        with open(path, 'w') as f:
            json.dump(body, f, indent=1, sort_keys=True, default=str)
        self.violations.append(path)
        line = 'VIOLATION property=%s replay=%s' % (self.pid, path)
        if no_input:
            line += ' no-failing-input-found'
        print(line, flush=True)
        self.log(what)

    # --------------------------------------------------------------- verdict
    def finish(self, coverage, extra_assumptions=()):
        """`coverage` must carry the campaign's measured numbers
        (evaluations, distinct_nontrivial, rule, samples, ...)."""
        # A broken proof / tie / correspondence with no concrete failing input
        # found by the caller's search is still a violation.
        if self.broken and not self.violations:
            self.violation(
                'proof obligation or model/code tie no longer checks: ' +
                '; '.join(self.broken),
                {'broken': self.broken,
                 'gen_changes': (self.gen_report or {}).get('gen_changes'),
                 'fingerprint_changes':
                     (self.gen_report or {}).get('fingerprint_changes')},
                no_input=True)
        cov = dict(coverage)
        nobl = len(self.obligations)
        level = self.level
        if nobl > 0 or any(b.startswith('lean build') for b in self.broken):
            cov.setdefault('obligations', nobl + len(
                [b for b in self.broken if b.startswith('lean build')]))
            cov.setdefault('discharged', max(nobl - len(self.undischarged),
                                             0))
            cov.setdefault('checker_cmd',
                           'cd /verif/lean && lake build <Props modules of '
                           '%s> && #print axioms on every theorem of those '
                           'modules (tools/vlib.py Check.lean/audit)'
                           % self.pid)
            cov.setdefault('trusted_base', self.trusted)
        elif level == 'proof':
            # no theorem was checked in this run: do not call it a proof
            level = 'exploration'
        self.level = level
        libs = getattr(self, 'inproc', None)
        if libs:
            cov['inproc_libraries'] = [
                {'library': n,
                 'evaluations': (r or {}).get('evaluations'),
                 'distinct_nontrivial': (r or {}).get('distinct_nontrivial')}
                for n, r in libs if isinstance(r, dict) or r is None]
            extra = sum((r or {}).get('evaluations') or 0 for _, r in libs
                        if isinstance(r, dict))
            cov['evaluations_including_inproc'] = \
                (cov.get('evaluations') or 0) + extra
        cov['theorems'] = self.obligations[:200]
        cov['known_findings_hit'] = self.known_hits
        if self.gen_report:
            cov['gen_changes_vs_snapshot'] = self.gen_report['gen_changes']
            cov['fingerprint_changes'] = \
                self.gen_report['fingerprint_changes']
        ev = {
            'property_id': self.pid,
            'tier': self.tier,
            'seed': self.seed,
            'level': self.level,
            'coverage': cov,
            'assumptions': list(self.assumptions) + list(extra_assumptions),
            'wall_s': round(time.time() - self.t0, 2),
            'violations': len(self.violations),
        }
        evdir = os.environ.get('LBZ_EVIDENCE_DIR') or \
            os.path.join(VERIF, 'evidence')
        os.makedirs(evdir, exist_ok=True)
        with open(os.path.join(evdir, self.pid + '.json'), 'w') as f:
            json.dump(ev, f, indent=1, default=str)
        if self.violations:
            self.log('FAILED: %d violation(s)' % len(self.violations))
            sys.exit(1)
        self.log('held (%d theorems audited, %s evaluations)' %
                 (nobl, cov.get('evaluations')))
        sys.exit(0)


# ---------------------------------------------------------------- utilities
class LineProc:
    """A child process speaking a one-request-per-line protocol."""

    def __init__(self, argv, env=None):
        self.p = subprocess.Popen(argv, stdin=subprocess.PIPE,
                                  stdout=subprocess.PIPE, text=True,
                                  bufsize=1, env=env)

    def ask(self, line):
        self.p.stdin.write(line + '\n')
        self.p.stdin.flush()
        r = self.p.stdout.readline()
        if r == '':
            raise RuntimeError('process died on: %s' % line[:200])
        return r.rstrip('\n')

    def close(self):
        try:
            self.p.stdin.close()
        except Exception:
            pass
        try:
            self.p.wait(timeout=10)
        except Exception:
            self.p.kill()
        return self.p.returncode


def batch(argv, lines, timeout=600, env=None):
    """Send all lines, return list of reply lines (same count expected)."""
    r = subprocess.run(argv, input='\n'.join(lines) + '\n', text=True,
                       stdout=subprocess.PIPE, stderr=subprocess.PIPE,
                       timeout=timeout, env=env)
    return r.returncode, r.stdout.split('\n')[:-1] if r.stdout.endswith('\n') \
        else r.stdout.split('\n'), r.stderr


def crc_table():
    t = []
    for i in range(256):
        c = i << 24
        for _ in range(8):
            c = ((c << 1) & 0xFFFFFFFF) ^ (0x04C11DB7 if c & 0x80000000 else 0)
        t.append(c)
    return t
