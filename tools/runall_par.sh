#!/bin/sh
# usage: tools/runall_par.sh [quick|thorough] [jobs]   -- like runall.sh, several checks at a time
cd "$(dirname "$0")/.." || exit 2
T=${1:-quick}; J=${2:-3}
L=.cache/logs-$T; mkdir -p $L
python3 -c "import json;print('\n'.join(c['property_id'] for c in json.load(open('MANIFEST.json'))['checks']))" | \
xargs -P $J -I{} sh -c 's=$(date +%s); ./check {} --tier '$T' > '$L'/{}.log 2>&1; rc=$?; e=$(date +%s); echo "{} rc=$rc $((e-s))s $(grep -c "^VIOLATION" '$L'/{}.log) violations $(grep -c "^KNOWN-FINDING" '$L'/{}.log) known"'
