#!/usr/bin/env python3
"""./check replay <file> — re-run a recorded violation against the current
tree: rebuilds the binary, feeds the recorded stream / input / command and
prints what happens next to what was recorded."""
import json
import os
import sys
sys.path.insert(0, os.path.dirname(os.path.abspath(__file__)))
from vlib import Check  # noqa: E402
import proc  # noqa: E402

path = sys.argv[1]
with open(path) as f:
    rp = json.load(f)
print('property:', rp.get('property'))
print('recorded:', rp.get('what'))
if rp.get('no_failing_input_found'):
    print('no concrete failing input was found; broken obligations:')
    for b in rp.get('broken', []):
        print('  -', b)
    print('re-run: ./check %s' % rp.get('property'))
    sys.exit(0)
ck = Check(rp.get('property', 'C00'))
exe = ck.build_lbzip2(asan=False)
if rp.get('stream_hex'):
    data = bytes.fromhex(rp['stream_hex'])
    r = proc.run1(exe, ['-d', '-n2'], data, env=rp.get('env'))
    print('lbzip2 -d on the recorded stream:', r.code(), 'stdout bytes',
          len(r.out), 'stderr', r.err[:200])
elif rp.get('input_hex') is not None:
    data = bytes.fromhex(rp['input_hex'])
    args = ['-%d' % rp.get('level', 9)] + (['-u'] if rp.get('seq') else []) + \
        ['-n%d' % rp.get('n', 2)]
    r = proc.run1(exe, args, data, env=rp.get('env'))
    print('lbzip2', ' '.join(args), ':', r.code(), 'out bytes', len(r.out))
    r2 = proc.run1(exe, ['-d'], r.out)
    print('round trip equal:', r2.out == data, r2.code())
else:
    print(json.dumps(rp, indent=1)[:4000])
