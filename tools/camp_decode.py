"""Decoder-side campaign shared by C05, C06, C07, C09, C15: structured valid
streams over every degree of freedom of the format, plus one crafted defect
per malformed case.  Expected results always come from the oracle
(bzformat.strict_decode, cross-checked with the Lean Spec driver and libbz2),
never from the generator's intention; the intention is kept as a tag to print
the distribution."""
import bz2
import hashlib
import os
import random

import bzformat as B
from bzformat import BitWriter, make_stream, simple_file


class Case:
    __slots__ = ('name', 'data', 'tag', 'fields', 'expect', 'why')

    def __init__(self, name, data, tag, fields=None):
        self.name = name
        self.data = data
        self.tag = tag
        self.fields = fields
        self.expect = None     # bytes if the oracle accepts, else None
        self.why = None        # reject reason

    def key(self):
        return hashlib.sha1(self.data).hexdigest()


def plains(rng, quick=True):
    r = rng
    P = [b'', b'a', b'ab', b'aaa', b'aaaa', b'aaaaa', b'a' * 258, b'a' * 259,
         b'a' * 260, b'a' * 263 + b'b', b'a' * 518 + b'xyz',
         bytes(range(256)),
         bytes(r.randrange(256) for _ in range(300)),
         bytes(r.choice(b'ab') for _ in range(1500)),
         b'the quick brown fox jumps over the lazy dog. ' * 40,
         bytes(r.randrange(4) for _ in range(900)) + b'\0' * 700,
         b'\xff' * 5000,
         bytes((i * 7) & 0xff for i in range(2000))]
    return P


def oracle(case):
    try:
        case.expect = B.strict_decode(case.data)
        case.why = None
    except B.Reject as e:
        case.expect = None
        case.why = str(e)
    except (IndexError, ValueError, KeyError) as e:   # oracle bug guard
        case.expect = None
        case.why = 'ORACLE-EXC ' + repr(e)
    return case


def gen_valid(rng, quick=True, seed_corpus=True, heavy=False):
    out = []
    if heavy:
        out.append(full_block_case())
    P = plains(rng, quick)
    # V1: a real encoder (libbz2) at several levels
    for i, p in enumerate(P):
        for lvl in ([1, 9] if quick else range(1, 10)):
            out.append(Case('v1-%d-l%d' % (i, lvl), bz2.compress(p, lvl),
                            'real-bzip2'))
    # V2: structured streams over the degrees of freedom
    nper = 2 if quick else 8
    for i, p in enumerate(P[1:]):
        for k in range(nper):
            kw = {}
            if rng.random() < 0.7:
                kw['ntables'] = rng.randint(2, 6)
            if rng.random() < 0.5:
                kw['random_tables'] = True
                kw['deep'] = rng.random() < 0.3
            if rng.random() < 0.5:
                kw['random_selectors'] = True
            if rng.random() < 0.4:
                kw['zigzag'] = rng.choice([0.05, 0.3, 0.6])
            if rng.random() < 0.3:
                kw['extra_selectors'] = rng.choice([1, 2, 49, 300])
            if rng.random() < 0.25:
                kw['rand'] = True
            lvl = rng.randint(1, 9)
            data, w = simple_file([p], lvl, rng, **kw)
            tag = 'struct:' + ','.join(sorted(kw)) if kw else 'struct:plain'
            out.append(Case('v2-%d-%d' % (i, k), data, tag, w.fields))
    # multi-block streams: later blocks start at arbitrary bit offsets
    for k in range(6 if quick else 40):
        w = BitWriter()
        nb = rng.randint(2, 5)
        blocks = []
        for _ in range(nb):
            p = rng.choice(P[1:])
            blocks.append((p, {'random_tables': rng.random() < 0.5,
                               'ntables': rng.randint(2, 6),
                               'rand': rng.random() < 0.2}))
        make_stream(w, blocks, rng.randint(1, 9), rng)
        out.append(Case('v3-multi-%d' % k, w.bytes(), 'multi-block', w.fields))
    # concatenated streams with different levels, trailing non-header data
    for k in range(6 if quick else 40):
        w = BitWriter()
        for _ in range(rng.randint(2, 4)):
            blocks = [(rng.choice(P), {}) for _ in range(rng.randint(0, 2))]
            blocks = [b for b in blocks if b[0]]
            make_stream(w, blocks, rng.randint(1, 9), rng)
        data = w.bytes()
        out.append(Case('v4-concat-%d' % k, data, 'concat', w.fields))
    # a later stream with a larger block than the first stream's level allows
    # (each stream has its own limit): level 1 then level 9 with a 150 kB block
    bigp = fix_no_runs(bytes(rng.randrange(200) for _ in range(150000)))
    s1, _ = simple_file([b'first stream, level one'], 1, rng)
    s9, _ = simple_file([b''], 9, rng, pre_rle=bigp)
    out.append(Case('v4-level-1-then-9', s1 + s9, 'concat-levels'))
    base, w = simple_file([b'hello hello hello'], 5, rng)
    for j, tr in enumerate([b'\0', b'x', b'BZ', b'BZh', b'BZh0junk', b'BZh:',
                            b'bZh9', b'BZH9' + b'\0' * 20, b'B', b'\xff' * 3,
                            b'BZh', b'BZ\0\0', b'  BZh9']):
        out.append(Case('v5-trail-%d' % j, base + tr, 'trailing-nonheader'))
    # 32767 selectors, unused incomplete table, long codes, extreme origptr
    data, w = simple_file([b'abcabcabd' * 30], 9, rng,
                          extra_selectors=32767 - 6, ntables=2)
    out.append(Case('v6-32767sel', data, 'surplus-selectors'))
    wtmp = BitWriter()
    info = B.make_block(wtmp, b'xyzzy' * 20, 9, rng, ntables=3)
    ng = (info['syms'] + 49) // 50
    data, w = simple_file([b'xyzzy' * 20], 9, rng, ntables=3,
                          selectors=[g % 2 for g in range(ng)],
                          raw_tables=[None, None,
                                      (5, '0' * info['alpha'])])
    out.append(Case('v6-unused-incomplete', data, 'unused-incomplete-table'))
    data, w = simple_file([bytes(range(60)) * 3], 9, rng, ntables=2,
                          random_tables=True, deep=True)
    out.append(Case('v6-deep', data, 'long-codes'))
    # groups that cost the full 1000 bits (fast path needs all 32 words),
    # at every bit alignment (one surplus selector = one bit)
    for ex in (range(0, 32, 4) if quick else range(32)):
        w = BitWriter()
        w.put(8, 0x42)
        w.put(8, 0x5A)
        w.put(8, 0x68)
        w.put(8, 0x39)
        info = B.worst_case_block(w, 24 if quick else 60, extra_selectors=ex)
        w.put(48, B.EOS_MAGIC)
        w.put(32, B.combine(0, info['crc']))
        w.align()
        out.append(Case('v9-worst-%d' % ex, w.bytes(), 'worst-case-groups'))
    # randomised blocks around and above the 617 threshold
    for n in [1, 616, 617, 618, 619, 1238, 3000]:
        p = bytes(rng.randrange(256) for _ in range(n))
        data, w = simple_file([p], 9, rng, rand=True)
        out.append(Case('v7-rand-%d' % n, data, 'randomised'))
    # block exactly at its declared capacity (level 1: 100000)
    if not quick:
        blk = bytes(rng.randrange(200) for _ in range(100000))
        blk = fix_no_runs(blk)
        data, w = simple_file([b''], 1, rng, pre_rle=blk)
        out.append(Case('v8-cap-exact', data, 'block-at-capacity'))
    for f in sorted(os.listdir('/repo/tests')):
        if f.endswith('.bz2'):
            with open(os.path.join('/repo/tests', f), 'rb') as fh:
                d = fh.read()
            if len(d) < 200000:
                out.append(Case('repo-' + f, d, 'repo-tests'))
    if seed_corpus:
        cdir = os.path.join(os.path.dirname(os.path.abspath(__file__)), '..',
                            'corpus')
        for root, _, files in os.walk(cdir):
            for f in sorted(files):
                if f.endswith('.bz2'):
                    with open(os.path.join(root, f), 'rb') as fh:
                        out.append(Case('corpus-' + f, fh.read(), 'corpus'))
    return out


def full_block_case():
    """A level-9 block with the maximum 900000 bytes and no zero runs at all:
    900001 symbols = 18001 groups of 50 (the largest group count the format
    can need; bzip2 itself never produces it)."""
    w = BitWriter()
    w.put(8, 0x42)
    w.put(8, 0x5A)
    w.put(8, 0x68)
    w.put(8, 0x39)
    used = [0x61, 0x62, 0x63]
    lens = [3, 3, 1, 3, 3]            # RUNA RUNB MTF1 MTF2 EOB ; complete
    assert B.complete(lens)
    syms = [2, 3] * 450000            # every symbol moves a byte: no runs
    info = B.make_raw_block(w, used, [lens, lens], [0] * 18001, syms)
    w.put(48, B.EOS_MAGIC)
    w.put(32, B.combine(0, info['crc']))
    w.align()
    c = Case('v8-full-18001-groups', w.bytes(), 'full-block-18001-groups')
    c.expect = info['plain']
    return c


def fix_no_runs(blk):
    b = bytearray(blk)
    for i in range(3, len(b)):
        if b[i] == b[i - 1] == b[i - 2] == b[i - 3]:
            b[i] = (b[i] + 1) % 200
    return bytes(b)


def setbits(data, start, n, v):
    b = bytearray(data)
    for i in range(n):
        bit = (v >> (n - 1 - i)) & 1
        p = start + i
        if bit:
            b[p >> 3] |= 1 << (7 - (p & 7))
        else:
            b[p >> 3] &= ~(1 << (7 - (p & 7))) & 0xFF
    return bytes(b)


def flipbit(data, p):
    b = bytearray(data)
    b[p >> 3] ^= 1 << (7 - (p & 7))
    return bytes(b)


def origptr_consistent(rng):
    """origPtr just outside 0..nblock-1 while the stored CRCs fit what a
    decoder that wraps, clamps or reads one node too far would produce: only
    the range test itself can reject these."""
    out = []
    for k, p in enumerate([b'origptr!', b'The quick brown fox jumps over the lazy dog.',
                           bytes(rng.randrange(97, 123) for _ in range(150))]):
        p = fix_no_runs(p)
        blk = B.rle1(p)
        last, idx = B.bwt(blk)
        nb = len(blk)
        for v in (nb, nb + 1):
            # every rotation of the block is what SOME start node yields
            for interp in (range(nb) if nb <= 48 else
                           sorted({0, 1, nb - 1, v % nb, idx})):
                try:
                    alt = B.unrle1(B.ibwt(last, interp))
                except B.Reject:
                    continue
                w = BitWriter()
                make_stream(w, [(p, {'origptr': v, 'crc': B.bzcrc(alt)})], 9, rng)
                out.append(Case('m-origptr-fit-%d-%d-as%d' % (k, v, interp),
                                w.bytes(), 'origptr-consistent-crc'))
    return out


def gen_malformed(rng, quick=True):
    """One crafted defect per case."""
    out = origptr_consistent(rng)
    P = [b'hello hello hello world', b'a' * 300 + b'bcd' * 50,
         bytes(rng.randrange(6) for _ in range(400))]
    bases = []
    for i, p in enumerate(P):
        w = BitWriter()
        make_stream(w, [(p, {'ntables': 3}), (p[::-1], {})], 9, rng)
        bases.append((w.bytes(), w.fields))
    nblocks = [[len(B.rle1(p)), len(B.rle1(p[::-1]))] for p in P]
    for bi, (data, fields) in enumerate(bases):
        nth_block = -1
        for (name, st, ln) in fields:
            if name == 'origptr':
                nth_block += 1
                # the boundary of the valid range 0 .. nblock-1
                nb = nblocks[bi][nth_block]
                for v in (nb, nb + 1, nb - 1):
                    out.append(Case('m-origptr-edge-%d-%d-%d' % (bi, nth_block, v),
                                    setbits(data, st, ln, v), 'origptr-edge'))
            if name in ('block_magic', 'eos_magic', 'hdr_B', 'hdr_Z', 'hdr_h',
                        'hdr_level', 'block_crc', 'stream_crc', 'rand'):
                bits = range(ln) if (not quick or ln <= 8) else \
                    rng.sample(range(ln), 6)
                for b in bits:
                    out.append(Case('m-flip-%s-%d-%d' % (name, bi, b),
                                    flipbit(data, st + b), 'flip:' + name))
            elif name == 'origptr':
                for v in (0xFFFFFF, 100000, 5000):
                    out.append(Case('m-origptr-%d-%d' % (bi, v),
                                    setbits(data, st, ln, v), 'origptr'))
            elif name == 'ngroups':
                for v in (0, 1, 7):
                    out.append(Case('m-ngroups-%d-%d' % (bi, v),
                                    setbits(data, st, ln, v), 'ngroups'))
            elif name == 'nselectors':
                for v in (0, 1):
                    out.append(Case('m-nsel-%d-%d' % (bi, v),
                                    setbits(data, st, ln, v), 'nselectors'))
            elif name == 'bitmap_big':
                out.append(Case('m-bitmap-%d' % bi, setbits(data, st, ln, 0),
                                'empty-bitmap'))
            elif name in ('selectors', 'table_delta', 'codes',
                          'bitmap_small', 'table_start'):
                k = 3 if quick else 12
                for b in rng.sample(range(ln), min(k, ln)):
                    out.append(Case('m-flip-%s-%d-%d' % (name, bi, b),
                                    flipbit(data, st + b), 'flip:' + name))
    # delta-code excursions and out-of-range ends, in used and unused tables
    shapes = {
        'hi': (20, '10' + '11' + '0'), 'lo': (1, '11' + '10' + '0'),
        'start0': (0, '10' + '0'), 'start21': (21, '11' + '0'),
        'start31': (31, '11' * 11 + '0'), 'end21': (20, '10' + '0'),
        'end0': (1, '11' + '0'), 'hi3': (19, '10' + '10' + '11' + '11' + '0'),
        'lo3': (2, '11' + '11' + '10' + '10' + '0'),
        'ok-zig': (10, '10' + '11' + '10' + '11' + '0'),
    }
    for nm, (st, first) in shapes.items():
        for used in (False, True):
            # alphabet of 'abab…' is {a,b} -> alpha 4; the shaped symbol is
            # followed by plain terminators
            tbl = (st, first + '0' * 3)
            kw = dict(ntables=2, selectors=[1 if used else 0] * 1,
                      raw_tables=[None, tbl] if not used else [None, tbl])
            p = b'ab' * 5
            try:
                data, w = simple_file([p], 9, rng, **kw)
            except Exception:
                continue
            out.append(Case('m-delta-%s-%s' % (nm, 'used' if used else
                                                'unused'), data,
                            'delta:' + nm))
    # under-/over-subscribed table that IS used
    for nm, lensbits in (('incomplete', (3, '0' * 4)),
                         ('oversub', (1, '0' * 4))):
        data, w = simple_file([b'ab' * 5], 9, rng, ntables=2, selectors=[1],
                              raw_tables=[None, lensbits])
        out.append(Case('m-table-' + nm, data, 'table:' + nm))
    data, w = simple_file([b'abcabc' * 9], 9, rng, drop_eob=True)
    out.append(Case('m-noeob', data, 'missing-eob'))
    data, w = simple_file([b''], 9, rng, pre_rle=b'xyaaaa')
    out.append(Case('m-nocount', data, 'missing-run-count'))
    data, w = simple_file([b''], 9, rng, pre_rle=b'xyaaaa\x03')
    out.append(Case('m-count-ok', data, 'run-count-present'))
    # block one byte over its declared capacity / exactly at it (zero runs)
    for n, nm in ((100000, 'cap'), (100001, 'cap+1')):
        kw = {'crc': 0} if n > 100000 else {}
        data, w = simple_file([b''], 1, rng, pre_rle=b'\0' * n, **kw)
        out.append(Case('m-zero-' + nm, data, 'capacity:' + nm))
    # a later stream declaring level 1 with a block that only fits level 9
    bigp = fix_no_runs(bytes(rng.randrange(200) for _ in range(150000)))
    s9a, _ = simple_file([b'first stream, level nine'], 9, rng)
    s1b, _ = simple_file([b''], 9, rng, pre_rle=bigp)
    s1b = s1b[:3] + b'1' + s1b[4:]
    out.append(Case('m-level-9-then-1-overfull', s9a + s1b,
                    'concat-levels-overfull'))
    # zero runs whose length wraps a 32-bit counter: 2^32 + r coded with 32
    # run symbols, CRC/origPtr of the r-byte block a wrapping decoder would
    # see; alone (slow symbol path) and followed by enough data for the fast
    # path (>= 32 words after the group)
    for r in (3, 2):
        for N in ((1 << 32) + r, (1 << 33) + (1 << 32) + r, (1 << 31) + r):
            used = [0x41, 0x42, 0x43]
            lens = [2, 2, 2, 3, 3]        # RUNA RUNB MTF1 MTF2 EOB
            for tail in (False, True):
                w = BitWriter()
                w.put(8, 0x42)
                w.put(8, 0x5A)
                w.put(8, 0x68)
                w.put(8, 0x39)
                want = B.run_syms(r) + [2, 3, 2, 2, 3, 3, 2]
                sent = B.run_syms(N) + [2, 3, 2, 2, 3, 3, 2]
                info = B.make_raw_block(w, used, [lens, lens], [0, 0], want,
                                        sent_syms=sent)
                cc = B.combine(0, info['crc'])
                if tail:
                    i2 = B.make_block(w, bytes(rng.randrange(256)
                                               for _ in range(400)), 9, rng)
                    cc = B.combine(cc, i2['crc'])
                w.put(48, B.EOS_MAGIC)
                w.put(32, cc)
                w.align()
                out.append(Case('m-runwrap-%d-%d-%s' % (N.bit_length(), r,
                                                        'tail' if tail else
                                                        'alone'), w.bytes(),
                                'run-length-wrap'))
    # too few selectors for the symbols present -> unterminated block
    wtmp = BitWriter()
    pl = bytes(rng.randrange(7) for _ in range(400))
    info = B.make_block(wtmp, pl, 9, rng, ntables=2)
    ng = (info['syms'] + 49) // 50
    if ng >= 2:
        data, w = simple_file([pl], 9, rng, ntables=2,
                              selectors=[0] * (ng - 1))
        out.append(Case('m-fewsel', data, 'too-few-selectors'))
    # truncation at every byte of small streams
    small, w = simple_file([b'truncate me please'], 9, rng)
    two = small + simple_file([b'second stream'], 3, rng)[0]
    for src, nm in ((small, 's'), (two, 'd')):
        cuts = range(len(src)) if (not quick or len(src) < 90) else \
            sorted(rng.sample(range(len(src)), 60))
        for c in cuts:
            out.append(Case('m-trunc-%s-%d' % (nm, c), src[:c], 'truncation'))
    # trailing data that does begin with a full header
    for d in b'123456789':
        out.append(Case('m-trail-hdr-%c' % d, small + b'BZh' + bytes([d]) +
                        b'junkjunkjunk', 'trailing-header'))
        out.append(Case('m-trail-hdr-only-%c' % d, small + b'BZh' + bytes([d]),
                        'trailing-header-only'))
    # byte-level mutations of real bzip2 output
    real = bz2.compress(b'some real data ' * 200 + bytes(range(256)), 9)
    n = 40 if quick else 600
    for k in range(n):
        b = bytearray(real)
        for _ in range(rng.choice([1, 1, 2, 3])):
            b[rng.randrange(len(b))] = rng.randrange(256)
        out.append(Case('m-bytes-%d' % k, bytes(b), 'byte-mutation'))
    out.append(Case('m-empty', b'', 'empty'))
    out.append(Case('m-short-hdr', b'BZh', 'short'))
    out.append(Case('m-hdr-only', b'BZh9', 'header-only'))
    out.append(Case('m-badmagic', b'BZh0' + small[4:], 'wrong-level-digit'))
    out.append(Case('m-gzip', b'\x1f\x8b\x08\x00' + b'\0' * 20, 'not-bzip2'))
    return out


def dedupe(cases):
    seen = set()
    out = []
    for c in cases:
        k = c.key()
        if k not in seen:
            seen.add(k)
            out.append(c)
    return out


def distribution(cases):
    d = {}
    for c in cases:
        t = c.tag.split(':')[0]
        a = 'accept' if c.expect is not None else 'reject:' + (c.why or '?')
        d.setdefault(t, {}).setdefault(a, 0)
        d[t][a] += 1
    return d
