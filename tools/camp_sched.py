"""Decompression configuration matrix (C09) and planted-magic streams (C10)."""
import bz2
import os
import random

import bzformat as B
import proc


POSITIONS = {}     # stream name -> [(kind, base bit position)] of its blocks


def delay_script(rng, name):
    """A random scripted-delay schedule aimed at the races that matter for a
    planted stream: who finishes first among the host block's master job, the
    spurious job, the neighbouring blocks' jobs and their emit jobs."""
    pos = POSITIONS.get(name)
    if not pos:
        return None
    ent = []
    for kind, p in pos:
        word, bit = p // 32, p % 32
        for site in ('retrbase', 'emit'):
            if rng.random() < 0.5:
                ms = rng.choice([50, 150, 300, 600, 1200])
                ent.append('%s:%d:%d=%d' % (site, word, bit, ms))
    rng.shuffle(ent)
    return ','.join(ent) if ent else None


def planted_streams(rng, quick=True):
    """(name, data, expected plaintext, tags): streams containing spurious
    copies of the 48-bit block magic."""
    out = []
    POS = []
    magic = B.num_bits(48, B.BLOCK_MAGIC)

    def build(parts, level=9, trailing=b''):
        w = B.BitWriter()
        w.put(8, 0x42)
        w.put(8, 0x5A)
        w.put(8, 0x68)
        w.put(8, 0x30 + level)
        cc = 0
        plain = b''
        POS.clear()
        for kind, arg in parts:
            if kind == 'real':
                info = B.make_block(w, arg, level, rng,
                                    ntables=rng.randint(2, 6))
                plain += arg
                POS.append(('real', info['start'] + 80 - 32))
            else:
                info = B.make_planted_block(w, arg['payload'],
                                            pre=arg['pre'], post=arg['post'],
                                            rng=rng, level=level)
                plain += info['plain']
                POS.append(('host', info['start'] + 80 - 32))
                POS.append(('spurious', info['payload_at'] + 80 - 32))
            cc = B.combine(cc, info['crc'])
        w.put(48, B.EOS_MAGIC)
        w.put(32, cc)
        w.align()
        return w.bytes() + trailing, plain
    reals = [b'real block one ' * 9, bytes(rng.randrange(5) for _ in range(700)),
             b'x' * 3000, b'tail block']
    n = 10 if quick else 60
    tries = 0
    while len(out) < n and tries < 10 * n:
        tries += 1
        kind = rng.choice(['magic+junk', 'magic+block', 'magic+block+more',
                           'two-magics', 'magic+eos'])
        junk = [rng.randrange(2) for _ in range(rng.choice([32, 40, 200]))]
        if kind == 'magic+junk':
            payload = magic + junk
        elif kind == 'magic+eos':
            payload = magic + junk + B.num_bits(48, B.EOS_MAGIC) + junk[:32]
        elif kind == 'two-magics':
            payload = magic + junk + magic + junk
        else:
            emb = B.block_bits(rng.choice(reals), 9, rng)
            payload = emb + (junk if kind == 'magic+block' else
                             magic + junk)
        arg = {'payload': payload, 'pre': rng.randrange(0, 70),
               'post': rng.choice([4, 40, 300])}
        parts = []
        for _ in range(rng.randint(0, 2)):
            parts.append(('real', rng.choice(reals)))
        parts.append(('plant', arg))
        for _ in range(rng.randint(1, 3)):
            parts.append(('real', rng.choice(reals)))
        try:
            data, plain = build(parts, rng.randint(1, 9))
        except (ValueError, B.Reject):
            continue
        out.append(('plant-%s-%d' % (kind, len(out)), data, plain,
                    'in-coded-data:' + kind))
        POSITIONS[out[-1][0]] = list(POS)
    # spurious headers in trailing data, including complete valid streams
    # after one garbage byte
    base, plain = build([('real', reals[0]), ('real', reals[1])])
    inner = bz2.compress(b'stream hidden in the trailing garbage' * 5, 9)
    w = B.BitWriter()
    w.raw(magic)
    w.raw([rng.randrange(2) for _ in range(300)])
    for nm, tr in (('garbage-stream', b'\0' + inner),
                   ('garbage-x-stream-x', b'x' + inner + b'y' + inner),
                   ('garbage-magic', b'\xff' + w.bytes()),
                   ('garbage-blockbits', b'Q' + bytes(
                       B.BitWriter().__class__().bytes()) +
                    bz2.compress(reals[2], 1)[4:])):
        out.append(('trail-' + nm, base + tr, plain, 'in-trailing-data'))
    return out


def config_env(rng, big=False):
    """A random decompression configuration (hook overrides)."""
    env = {'LBZIP2_VERIF_CHECK': '1'}
    ig = rng.choice([4, 8, 12, 64, 124, 128, 132, 4096, 262144] if not big else
                    [4096, 65536, 262144])
    og = rng.choice([1, 2, 3, 7, 64, 900000] if not big else
                    [4096, 65536, 900000])
    env['LBZIP2_VERIF_IN_GRANUL'] = str(ig)
    env['LBZIP2_VERIF_OUT_GRANUL'] = str(og)
    if rng.random() < 0.6:
        env['LBZIP2_VERIF_PERTURB'] = str(rng.randrange(1, 10**6))
    if rng.random() < 0.3:
        env['LBZIP2_VERIF_IN_SLOTS'] = str(rng.choice([2, 3, 4, 8]))
    if rng.random() < 0.3:
        # scarce output slots (never <= EMIT_THRESH = 2: that test-only
        # setting can starve the emit reserve by construction)
        env['LBZIP2_VERIF_OUT_SLOTS'] = str(rng.choice([3, 4, 6]))
    return env
