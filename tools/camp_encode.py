"""Compression-side campaign shared by C01, C02, C03, C04 (process level),
C20 (checker on real output)."""
import hashlib
import os
import random
import subprocess
import threading
import time

import bzformat as B
import proc


def fib_word(n):
    a, b = b'a', b'ab'
    while len(b) < n:
        a, b = b, b + a
    return b[:n]


def thue_morse(n):
    return bytes(0x61 + (bin(i).count('1') & 1) for i in range(n))


def de_bruijn(k, n):
    a = [0] * k * n
    seq = []

    def db(t, p):
        if t > n:
            if n % p == 0:
                seq.extend(a[1:p + 1])
        else:
            a[t] = a[t - p]
            db(t + 1, p)
            for j in range(a[t - p] + 1, k):
                a[t] = j
                db(t + 1, t)
    db(1, 1)
    return bytes(seq)


def rnd(rng, n, alpha=256):
    if alpha == 256:
        return rng.randbytes(n)
    return bytes(rng.choices(range(alpha), k=n))


def norun(rng, n):
    """random bytes without 4 equal in a row (so rle1 length = n)."""
    b = bytearray(rng.randbytes(n))
    for i in range(3, n):
        if b[i] == b[i - 1] == b[i - 2] == b[i - 3]:
            b[i] ^= 0x55
    return bytes(b)


def inputs(rng, quick=True):
    """(name, bytes, tags).  Sizes chosen so that level 1 gives several
    blocks quickly; boundary families sit around 100000*k."""
    I = []

    def add(name, data, tag):
        I.append((name, data, tag))
    add('empty', b'', 'tiny')
    add('one', b'x', 'tiny')
    for r in (3, 4, 5, 258, 259, 260, 263, 518, 519):
        add('run%d' % r, b'a' * r, 'runs')
        add('run%d+b' % r, b'q' + b'a' * r + b'b', 'runs')
    add('all256', bytes(range(256)) * 20, 'small')
    add('text', b'It was the best of times, it was the worst of times. ' * 300,
        'small')
    add('two-symbol', rnd(rng, 30000, 2), 'small')
    add('fib', fib_word(60000), 'sort-adversary')
    add('thue', thue_morse(50000), 'sort-adversary')
    add('debruijn', de_bruijn(4, 7) * 3, 'sort-adversary')
    for per in (1023, 1024, 1025, 16, 17):
        unit = rnd(rng, per)
        add('tandem%d' % per, unit * (70000 // per), 'sort-adversary')
    add('sorted', bytes(sorted(rnd(rng, 40000))), 'small')
    add('revsorted', bytes(sorted(rnd(rng, 40000), reverse=True)), 'small')
    # capacity boundaries at level 1 (block capacity 100000 RLE bytes,
    # chunk 100000 input bytes)
    for d in (-2, -1, 0, 1, 2):
        add('norun-100k%+d' % d, norun(rng, 100000 + d), 'boundary')
        add('norun-200k%+d' % d, norun(rng, 200000 + d), 'boundary')
    for off in (99990, 99996, 99997, 99998, 99999):
        for run in (3, 4, 5, 10, 300):
            add('cross-%d-%d' % (off, run),
                norun(rng, off) + b'\x07' * run + norun(rng, 50000),
                'boundary-run')
    # the same with the RLE alignment shifted by -2..+2 at the chunk edge
    # (a run of 7 saves 2 bytes, 6 saves 1, 4 costs 1, two runs of 4 cost 2),
    # so that the pending run meets 0, 1, 2, 3 free bytes in the block
    for sh, pre in ((-2, b'x' * 7), (-1, b'x' * 6), (1, b'x' * 4),
                    (2, b'xxxxyyyy')):
        for off in (99997, 99998, 99999):
            for run in (4, 5, 9):
                body = norun(rng, off - len(pre) - 1)
                add('shift%+d-%d-%d' % (sh, off, run),
                    pre + b'\x01' + body + b'\x07' * run + norun(rng, 30000),
                    'boundary-run-shifted')
    # blocks that fill by RLE-expansion inside a chunk: runs of exactly 4
    # cost 5 bytes, so 100000 input bytes need > 100000 RLE bytes
    add('runs-of-4', b''.join(bytes([i & 0xff]) * 4
                              for i in range(30000)), 'rle-expands')
    add('runs-of-4-b', b''.join(bytes([(i * 7) & 0xff]) * 4
                                for i in range(60000))[:239999], 'rle-expands')
    add('long-run', b'\0' * 1000000, 'rle-shrinks')
    add('long-run-mix', (b'z' * 70000 + rnd(rng, 5000)) * 4, 'rle-shrinks')
    add('random-300k', rnd(rng, 300000), 'multi-block')
    add('alpha5-350k', rnd(rng, 350000, 5), 'multi-block')
    if not quick:
        add('random-2.5M', rnd(rng, 2500000), 'large')
        add('alpha3-3M', rnd(rng, 3000000, 3), 'large')
        add('fib-900k', fib_word(900000), 'large')
        for d in (-1, 0, 1):
            add('norun-900k%+d' % d, norun(rng, 900000 + d), 'large-boundary')
    return I


def expected_blocks(data, level, seq):
    cap = level * 100000
    ks = B.pack_blocks(data, cap, None if seq else cap)
    out = []
    pos = 0
    for k in ks:
        seg = data[pos:pos + k]
        out.append((k, B.bzcrc(seg), len(B.rle1(seg))))
        pos += k
    return out


def inspect_c02(comp, level):
    """Strict well-formedness of a compressor output (property C02).
    Returns (infos, problems)."""
    problems = []
    try:
        _, infos, meta = B.strict_decode(comp, want_info=True, full=False)
    except B.Reject as e:
        return None, ['strict parser rejects: %s' % e]
    if comp[:4] != b'BZh' + bytes([0x30 + level]):
        problems.append('header digit is not the level')
    if meta['streams'] != 1:
        problems.append('%d streams' % meta['streams'])
    if meta['end_byte'] != len(comp):
        problems.append('bytes after end of stream')
    for bi, inf in enumerate(infos):
        if inf['rand']:
            problems.append('block %d randomised' % bi)
        if inf['nblock'] > level * 100000:
            problems.append('block %d holds %d > %d' % (bi, inf['nblock'],
                                                        level * 100000))
        if not (2 <= len(inf['lens']) <= 6):
            problems.append('block %d has %d tables' % (bi, len(inf['lens'])))
        for ti, ls in enumerate(inf['lens']):
            if not B.complete(ls):
                problems.append('block %d table %d not complete/1..20 (kraft '
                                '%d/2^20)' % (bi, ti, B.kraft(ls)))
        if len(inf['selectors']) > 18002:
            problems.append('block %d has %d selectors' %
                            (bi, len(inf['selectors'])))
        if inf['origptr'] >= inf['nblock']:
            problems.append('block %d origPtr outside' % bi)
    return infos, problems


def first_block_counts(comp):
    """(ntables, nselectors) declared by the first block of a stream, read
    from the header fields only (cheap, for very large blocks)."""
    def bits(pos, n):
        v = 0
        for i in range(n):
            p = pos + i
            v = (v << 1) | ((comp[p >> 3] >> (7 - (p & 7))) & 1)
        return v
    pos = 32
    if bits(pos, 48) != B.BLOCK_MAGIC:
        return None
    pos += 48 + 32 + 1 + 24
    big = bits(pos, 16)
    pos += 16 + 16 * bin(big).count('1')
    return bits(pos, 3), bits(pos + 3, 15)


class Feeder(threading.Thread):
    """Feeds data to a pipe in random fragments (read() fragmentation)."""

    def __init__(self, fd, data, rng):
        super().__init__(daemon=True)
        self.fd = fd
        self.data = data
        self.rng = random.Random(rng.random())

    def run(self):
        pos = 0
        n = len(self.data)
        try:
            while pos < n:
                k = self.rng.choice([1, 2, 7, 100, 4096, 65536, 99999, 100000,
                                     250000])
                os.write(self.fd, self.data[pos:pos + k])
                pos += k
                if self.rng.random() < 0.2:
                    time.sleep(self.rng.random() * 0.002)
        except OSError:
            pass
        finally:
            os.close(self.fd)


def run_fragmented(exe, args, data, rng, env=None, timeout=120):
    """stdin is a pipe fed in fragments; returns proc.Res."""
    e = dict(os.environ)
    for k in list(e):
        if k in ('LBZIP2', 'BZIP2', 'BZIP') or k.startswith('LBZIP2_VERIF'):
            del e[k]
    if env:
        e.update(env)
    rfd, wfd = os.pipe()
    p = subprocess.Popen([exe] + list(args), stdin=rfd,
                         stdout=subprocess.PIPE, stderr=subprocess.PIPE,
                         env=e, start_new_session=True)
    os.close(rfd)
    f = Feeder(wfd, data, rng)
    f.start()
    try:
        out, err = p.communicate(timeout=timeout)
        to = False
    except subprocess.TimeoutExpired:
        p.kill()
        out, err = p.communicate()
        to = True
    f.join(5)
    rc = p.returncode
    if rc < 0:
        return proc.Res(None, -rc, out, err, to)
    return proc.Res(rc, None, out, err, to)


def sha(b):
    return hashlib.sha1(b).hexdigest()[:16]
