# Abstract explicit-state model of lbzip2's expansion scheduler (expand.c + process.c), for design exploration.
import sys
from collections import deque
SCAN_T=1; EMIT_T=2
class Cfg:
    def __init__(s, n, W, T, chain, eos, spur=None, hidden=(), total_in=None, total_out=None):
        # chain: list of (hdr, end, status, nbuf): header at unit hdr, base=hdr+1, data to 'end' (next header at end)
        s.n=n; s.W=W; s.T=T; s.B=(T+W-1)//W
        s.blocks={}; s.hdrs={}
        for (h,e,st,nb) in chain:
            s.hdrs[h]=h+1; s.blocks[h+1]=(e,st,nb)
        s.eos=eos
        s.cands=set(b for b in s.blocks if b not in hidden)
        for (b,e,st,nb) in (spur or []):
            s.blocks[b]=(e,st,nb); s.cands.add(b)
        s.total_in=4*n if total_in is None else total_in
        s.total_out=16*n if total_out is None else total_out
        s.expected=[]
        p=0
        while p in s.hdrs:
            b=s.hdrs[p]; e,st,nb=s.blocks[b]
            for m in range(nb): s.expected.append((b,m))
            if st!='OK': s.expected_fail=True; break
            p=e
        else:
            s.expected_fail = (p!=eos)
def explore(c, maxstates=3000000):
    n,W,T,B=c.n,c.W,c.T,c.B
    ucap=max(0,n+c.total_out-(SCAN_T+EMIT_T))
    # state tuple
    # (rd, eof, rclose, ins, head, att, scanq, retrq, ublks, emitq, reordq, orderq, ptok, pdone, ppos, wu, outs, outq, ws, written, leaked)
    init=(0,False,False,c.total_in,0,(0,)*B,frozenset(),frozenset(),frozenset(),frozenset(),frozenset(),(),True,False,0,n,c.total_out,(),(None,)*n,(),0)
    seen={init}; dq=deque([init]); stats={'states':0,'final':0,'fail':0,'dead':[],'maxunord':0,'maxorder':0,'leakmax':0,'badout':0,'capviol':[]}
    def tailu(rd): return min(rd*W,T)
    def can_attach(p,rd,eof): return p<tailu(rd) or (eof and p==tailu(rd))
    def release(att,head,ins,k,delta):
        # change att[k] by delta; if block k is shifted (k<head) and att becomes 0 -> slot released
        a=list(att); a[k]+=delta; 
        if delta<0 and a[k]==0 and k<head: ins+=1
        return tuple(a),ins
    def advance(p,head,att,ins,retrq,scanq,wu,ublks,leaked,rd):
        # release input blocks entirely before p
        while head<rd and min((head+1)*W,T)<=p:
            if att[head]==0: ins+=1
            head+=1
        ho=min(head*W,T)
        nr=set()
        for j in retrq:
            if j[0]<ho: wu+=1   # dropped; link not freed -> potential leak handled when ublk flagged
            else: nr.add(j)
        ns=frozenset(x for x in scanq if x>=ho)
        return head,ins,frozenset(nr),ns,wu
    def ub_get(ublks,b):
        for u in ublks:
            if u[0]==b: return u
        return None
    def succ(s):
        (rd,eof,rclose,ins,head,att,scanq,retrq,ublks,emitq,reordq,orderq,ptok,pdone,ppos,wu,outs,outq,ws,written,leaked)=s
        res=[]
        def mk(**kw):
            d=dict(rd=rd,eof=eof,rclose=rclose,ins=ins,head=head,att=att,scanq=scanq,retrq=retrq,ublks=ublks,emitq=emitq,reordq=reordq,orderq=orderq,ptok=ptok,pdone=pdone,ppos=ppos,wu=wu,outs=outs,outq=outq,ws=ws,written=written,leaked=leaked)
            d.update(kw)
            return tuple(d[k] for k in ('rd','eof','rclose','ins','head','att','scanq','retrq','ublks','emitq','reordq','orderq','ptok','pdone','ppos','wu','outs','outq','ws','written','leaked'))
        # reader
        if not eof:
            if rclose: res.append(('r.close',mk(eof=True)))
            elif ins>0:
                if rd<B:
                    if pdone: res.append(('r.read.drop',mk(rd=rd+1)))  # buffer released at once; counts as consumed
                    else: res.append(('r.read',mk(rd=rd+1,ins=ins-1,scanq=scanq|{rd*W})))
                else: res.append(('r.eof',mk(eof=True)))
        # writer
        if outq: res.append(('w',mk(outq=outq[1:],outs=outs+1,written=written+(outq[0],))))
        # which task is ready
        def ready():
            if reordq:
                hb=min(reordq)
                if (orderq and hb[0]<=orderq[0]) or (not orderq and pdone): return 'reorder'
            if (not pdone) and ptok and wu>0 and can_attach(ppos,rd,eof): return 'parse'
            if emitq:
                he=min(emitq)
                if outs>EMIT_T or (outs>0 and orderq and he[0]==orderq[0]): return 'emit'
            if retrq and can_attach(min(retrq)[0],rd,eof): return 'retrieve'
            if (wu>SCAN_T or (wu>0 and not ptok)) and scanq and can_attach(min(scanq),rd,eof): return 'scan'
            return None
        t=ready()
        idle_done=False
        for i,w in enumerate(ws):
            def setw(x): return ws[:i]+(x,)+ws[i+1:]
            if w is None:
                if idle_done or t is None: continue
                idle_done=True
                if t=='reorder':
                    ob=min(reordq)
                    if (not orderq) or ob[0]<orderq[0]:
                        res.append(('reorder.bogus',mk(reordq=reordq-{ob},outs=outs+1)))
                    else:
                        if ob[1]=='MORE':
                            no=((orderq[0][0],orderq[0][1]+1),)+orderq[1:]
                            res.append(('reorder.more',mk(reordq=reordq-{ob},orderq=no,outq=outq+(ob[0],))))
                        elif ob[1]=='OK':
                            res.append(('reorder.ok',mk(reordq=reordq-{ob},orderq=orderq[1:],outq=outq+(ob[0],))))
                        else:
                            res.append(('FAIL',('FAIL',written+outq)))
                elif t=='parse':
                    k=ppos//W if ppos<tailu(rd) else None
                    a2,i2=(release(att,head,ins,k,+1) if k is not None else (att,ins))
                    res.append(('parse.a1',mk(ptok=False,wu=wu-1,att=a2,ins=i2,ws=setw(('P',ppos,k)))))
                elif t=='emit':
                    eb=min(emitq)
                    res.append(('emit.a1',mk(outs=outs-1,emitq=emitq-{eb},ws=setw(('E',)+eb))))
                elif t=='retrieve':
                    j=min(retrq); k=j[0]//W if j[0]<tailu(rd) else None
                    a2,i2=(release(att,head,ins,k,+1) if k is not None else (att,ins))
                    res.append(('retr.a1',mk(retrq=retrq-{j},att=a2,ins=i2,ws=setw(('R',)+j+(k,)))))
                elif t=='scan':
                    sp=min(scanq); k=sp//W
                    start=sp
                    if k==ppos//W and sp<ppos: start=ppos
                    a2,i2=release(att,head,ins,k,+1)
                    res.append(('scan.a1',mk(wu=wu-1,scanq=scanq-{sp},att=a2,ins=i2,ws=setw(('S',start,k)))))
            else:
                if w[0]=='P':
                    _,p,k=w
                    a2,i2=(release(att,head,ins,k,-1) if k is not None else (att,ins))
                    if k is None or p>=T:
                        # at EOF
                        res.append(('FAIL',('FAIL',written+outq))); continue
                    if p in c.hdrs:
                        base=c.hdrs[p]
                        h2,i3,r2,s2,w2=advance(base,head,a2,i2,retrq,scanq,wu,ublks,leaked,rd)
                        oq=orderq+((base,0),)
                        ub=set(ublks); lk=leaked; ptok2=False
                        # pop unord with base < parser pos
                        for u in sorted(x for x in ub if x[3] and x[0]<base):
                            ub.discard(u)
                            if u[1]: pass   # complete -> freed
                            else: ub.add((u[0],True,False,False,u[4]))   # flagged, out of queue (owned by job or leaked)
                        m=[x for x in ub if x[3] and x[0]==base]
                        if m:
                            u=m[0]; ub.discard(u)
                            h2,i3,r2,s2,w2=advance(u[4],h2,a2,i3,r2,s2,w2,ublks,leaked,rd)
                            pp=u[4]
                            if u[1]: ptok2=True
                            else: ub.add((u[0],True,True,False,u[4]))
                            res.append(('parse.match',mk(att=a2,ins=i3,head=h2,retrq=r2,scanq=s2,wu=w2+1,orderq=oq,ublks=frozenset(ub),ptok=ptok2,ppos=pp,ws=setw(None))))
                        else:
                            r2=r2|{(base,base,None)}
                            res.append(('parse.new',mk(att=a2,ins=i3,head=h2,retrq=r2,scanq=s2,wu=w2,orderq=oq,ublks=frozenset(ub),ptok=False,ppos=base,ws=setw(None))))
                    elif p==c.eos:
                        # FINISH: release everything
                        h2=head; i3=i2
                        while h2<rd:
                            if a2[h2]==0: i3+=1
                            h2+=1
                        w2=wu+len(retrq)+1
                        ub=set()
                        for u in ublks:
                            if u[3]:
                                if u[1]: continue
                                ub.add((u[0],True,False,False,u[4]))
                            else: ub.add(u)
                        res.append(('parse.finish',mk(att=a2,ins=i3,head=h2,retrq=frozenset(),scanq=frozenset(),wu=w2,ublks=frozenset(ub),ptok=True,pdone=True,rclose=True,ppos=p+1,ws=setw(None))))
                    else:
                        res.append(('FAIL',('FAIL',written+outq)))
                elif w[0]=='R':
                    _,curr,base,link,k=w
                    a2,i2=(release(att,head,ins,k,-1) if k is not None else (att,ins))
                    e,st,nb=c.blocks[base]
                    if k is None: newc=curr; rv='ERR'
                    else:
                        be=min((k+1)*W,T); tgt=e
                        newc=min(tgt,be); rv=st if newc==tgt else 'MORE'
                    u=ub_get(ublks,link) if link is not None else None
                    if pdone:
                        ub=set(ublks)
                        lk=leaked
                        if u is not None: ub.discard(u); lk+=1
                        res.append(('retr.pdone',mk(att=a2,ins=i2,wu=wu+1,ublks=frozenset(ub),leaked=lk,ws=setw(None)))); continue
                    if u is not None and u[1] and not u[2]:
                        ub=set(ublks); ub.discard(u)
                        res.append(('retr.abort',mk(att=a2,ins=i2,wu=wu+1,ublks=frozenset(ub),leaked=leaked+1,ws=setw(None)))); continue
                    h2,i3,r2,s2,w2=head,i2,retrq,scanq,wu
                    ub=set(ublks)
                    if u is None or u[1]:
                        h2,i3,r2,s2,w2=advance(newc,head,a2,i2,retrq,scanq,wu,ublks,leaked,rd); pp=newc
                    else:
                        ub.discard(u); u=(u[0],u[1],u[2],u[3],newc); ub.add(u); pp=ppos
                    if rv=='MORE':
                        res.append(('retr.more',mk(att=a2,ins=i3,head=h2,retrq=r2|{(newc,base,link)},scanq=s2,wu=w2,ublks=frozenset(ub),ppos=pp,ws=setw(None)))); continue
                    pt=ptok
                    if u is not None and not u[1]:
                        ub.discard(u); ub.add((u[0],True,u[2],u[3],newc))
                    else:
                        if ptok: res.append(('ASSERT parse_token',('ASSERT','parse_token set when master finishes'))); continue
                        pt=True
                        if u is not None: ub.discard(u)
                    res.append(('retr.done',mk(att=a2,ins=i3,head=h2,retrq=r2,scanq=s2,wu=w2,ublks=frozenset(ub),ptok=pt,ppos=pp,ws=setw(('R2',(base,0),(nb if rv=='OK' else 1),rv)))))
                elif w[0]=='R2':
                    res.append(('retr.a3',mk(emitq=emitq|{(w[1],w[2],w[3])},ws=setw(None))))
                elif w[0]=='E':
                    _,b,left,stt=w
                    if stt=='OK' and left>1:
                        res.append(('emit.more',mk(emitq=emitq|{((b[0],b[1]+1),left-1,stt)},reordq=reordq|{(b,'MORE')},ws=setw(None))))
                    else:
                        res.append(('emit.done',mk(wu=wu+1,reordq=reordq|{(b,stt)},ws=setw(None))))
                elif w[0]=='S':
                    _,start,k=w
                    a2,i2=release(att,head,ins,k,-1)
                    be=min((k+1)*W,T)
                    cs=[x for x in c.cands if x-1>=start and x<=be and (x-1)//W==k]
                    if not cs or pdone:
                        res.append(('scan.none',mk(att=a2,ins=i2,wu=wu+1,ws=setw(None)))); continue
                    cb=min(cs)
                    ub=set(ublks); r2=retrq; w2=wu
                    if cb<=ppos: w2=wu+1
                    else:
                        ub.add((cb,False,False,True,cb)); r2=retrq|{(cb,cb,cb)}
                    s2=scanq
                    if cb!=be and cb>=min(head*W,T): s2=scanq|{cb}
                    res.append(('scan.found',mk(att=a2,ins=i2,wu=w2,ublks=frozenset(ub),retrq=r2,scanq=s2,ws=setw(None))))
        return res
    while dq:
        s=dq.popleft(); stats['states']+=1
        if stats['states']>maxstates: stats['truncated']=True; break
        (rd,eof,rclose,ins,head,att,scanq,retrq,ublks,emitq,reordq,orderq,ptok,pdone,ppos,wu,outs,outq,ws,written,leaked)=s
        nun=sum(1 for u in ublks if u[3])
        stats['maxunord']=max(stats['maxunord'],nun); stats['maxorder']=max(stats['maxorder'],len(orderq)); stats['leakmax']=max(stats['leakmax'],leaked)
        viol=[]
        if len(retrq)>n: viol.append('retr_q')
        if len(emitq)>n: viol.append('emit_q')
        if nun>ucap: viol.append('unord_q %d>%d'%(nun,ucap))
        if len(orderq)>n+c.total_out: viol.append('order_q')
        if len(reordq)>c.total_out: viol.append('reord_q')
        if len(outq)>c.total_out: viol.append('output_q')
        if len(scanq)>c.total_in or rd-head>c.total_in: viol.append('input/scan q')
        if wu<0 or wu>n or outs<0 or outs>c.total_out or ins<0 or ins>c.total_in: viol.append('counter range wu=%d outs=%d ins=%d'%(wu,outs,ins))
        held=len(retrq)+len(emitq)+sum(1 for w in ws if w is not None)
        if wu+held!=n: viol.append('wu conservation %d+%d'%(wu,held))
        oheld=len(reordq)+len(outq)+sum(1 for w in ws if w and w[0]=='E')
        if outs+oheld!=c.total_out: viol.append('out conservation')
        if viol and len(stats['capviol'])<3: stats['capviol'].append((viol,s))
        sc=succ(s)
        if not sc:
            fin = eof and pdone and ptok and wu==n and outs==c.total_out and not outq and all(w is None for w in ws)
            if fin:
                stats['final']+=1
                if list(written)!=c.expected or c.expected_fail: stats['badout']+=1
            else:
                if len(stats['dead'])<2: stats['dead'].append(s)
                stats['ndead']=stats.get('ndead',0)+1
        for lab,t in sc:
            if t[0]=='FAIL':
                stats['fail']+=1
                if not c.expected_fail or list(t[1])[:len(t[1])]!=c.expected[:len(t[1])]: stats['badout']+=1
                continue
            if t[0]=='ASSERT':
                stats.setdefault('asserts',[]).append(t[1]); continue
            if t not in seen: seen.add(t); dq.append(t)
    return stats
if __name__=='__main__':
    import time
    tests=[
      ('1blk n1', Cfg(1,2,4,[(0,3,'OK',1)],3)),
      ('2blk n1', Cfg(1,2,6,[(0,2,'OK',1),(2,5,'OK',2)],5)),
      ('2blk n2', Cfg(2,2,6,[(0,2,'OK',1),(2,5,'OK',2)],5)),
      ('3blk n2 W3', Cfg(2,3,9,[(0,3,'OK',1),(3,5,'OK',2),(5,8,'OK',1)],8)),
      ('2blk n2 spur-ok', Cfg(2,3,9,[(0,4,'OK',1),(4,8,'OK',1)],8,spur=[(3,6,'OK',1)])),
      ('2blk n2 spur-long', Cfg(2,3,9,[(0,4,'OK',1),(4,8,'OK',1)],8,spur=[(3,20,'OK',1)])),
      ('2blk n2 spur-err', Cfg(2,3,9,[(0,4,'OK',1),(4,8,'OK',1)],8,spur=[(3,4,'ERR',1),(7,8,'OK',2)])),
      ('trailing n2', Cfg(2,2,8,[(0,2,'OK',1)],2,spur=[(5,7,'OK',1),(7,30,'OK',1)])),
      ('err blk n2', Cfg(2,2,6,[(0,2,'OK',1),(2,5,'ERR',1)],5)),
      ('hidden n2', Cfg(2,2,8,[(0,3,'OK',1),(3,7,'OK',2)],7,hidden=(4,))),
      ('slots tight n2', Cfg(2,2,8,[(0,3,'OK',2),(3,7,'OK',2)],7,total_in=2,total_out=3)),
      ('slots tight n1', Cfg(1,2,8,[(0,3,'OK',2),(3,7,'OK',2)],7,total_in=1,total_out=3)),
    ]
    for name,c in tests:
        t0=time.time(); st=explore(c)
        print(name,{k:v for k,v in st.items() if k not in('dead','capviol')}, 'DEAD' if st['dead'] else '', 'VIOL '+str(st['capviol'][0][0]) if st['capviol'] else '', '%.1fs'%(time.time()-t0))
        if st['dead']: print('   dead state:',st['dead'][0])
