import bz2, sys
def crc_table():
    t=[]
    for i in range(256):
        c=i<<24
        for _ in range(8): c=((c<<1)&0xFFFFFFFF)^(0x04C11DB7 if c&0x80000000 else 0)
        t.append(c)
    return t
T=crc_table()
def bzcrc(data):
    c=0xFFFFFFFF
    for b in data: c=((c<<8)&0xFFFFFFFF)^T[(c>>24)^b]
    return c^0xFFFFFFFF
def bits_of(data): return [(b>>(7-i))&1 for b in data for i in range(8)]
def tobytes(bits):
    b=bits+[0]*((-len(bits))%8)
    return bytes(int(''.join(map(str,b[i:i+8])),2) for i in range(0,len(b),8))
def num(n,v): return [(v>>i)&1 for i in range(n-1,-1,-1)]
MAGIC=num(24,0x314159)+num(24,0x265359); EOS=num(24,0x177245)+num(24,0x385090)
def find(bits,pat,start=0):
    n=len(pat)
    for i in range(start,len(bits)-n+1):
        if bits[i:i+n]==pat: return i
    return -1
def blocks_of(stream):
    """return list of (blockbits, crc) for a single-stream bz2 file"""
    bits=bits_of(stream); out=[]; i=32
    starts=[]
    j=32
    while True:
        k=find(bits,MAGIC,j)
        if k<0: break
        starts.append(k); j=k+48
    # find EOS: last occurrence
    e=len(bits)-80
    while bits[e:e+48]!=EOS: e-=1
    # NOTE: spurious MAGIC inside data is astronomically unlikely
    starts.append(e)
    for a,b in zip(starts,starts[1:]):
        blk=bits[a:b]; crc=int(''.join(map(str,blk[48:80])),2); out.append((blk,crc))
    return out
# ---- crafted block A with planted magic
def decode_syms(syms, used, origptr):
    # syms: list of 'A','B',int mtf index>=1 ; returns plaintext after IBWT and unRLE1
    order=list(used); tt=[]; run=0; sh=0
    def flush():
        nonlocal run,sh
        tt.extend([order[0]]*run); run=0; sh=0
    for s in syms:
        if s=='A': run+=1<<sh; sh+=1
        elif s=='B': run+=2<<sh; sh+=1
        else:
            flush(); c=order.pop(s); order.insert(0,c); tt.append(c)
    flush()
    n=len(tt)
    # IBWT
    idx=sorted(range(n),key=lambda i:(tt[i],i))
    out=[]; p=idx[origptr]
    for _ in range(n):
        out.append(tt[p]); p=idx[p]
    # unRLE1
    res=[]; k=0; prev=None; i=0
    while i<n:
        b=out[i]; i+=1
        if k==4: res.extend([prev]*b); k=0; continue
        res.append(b)
        if k and b==prev: k+=1
        else: k=1; prev=b
    assert k!=4, 'block ends with 4 equal bytes'
    return bytes(res), n
def craftA():
    used=[0x61,0x62]
    lens=[1,2,3,3]   # RUNA=0 RUNB=10 MTF1=110 EOB=111
    code={'A':[0],'B':[1,0],1:[1,1,0],'E':[1,1,1]}
    planted=MAGIC+[0]+[1,1,0]*10+[0]
    # tokenise planted bits
    syms=[]; i=0
    while i<len(planted):
        if planted[i]==0: syms.append('A'); i+=1
        elif planted[i+1]==0: syms.append('B'); i+=2
        else:
            assert planted[i+2]==0; syms.append(1); i+=3
    pre=[1,'A',1,'B',1]; post=[1,'A',1,1,'B',1]
    allsyms=pre+syms+post
    for op in range(0,200):
        try:
            plain,n=decode_syms(allsyms,used,op); break
        except AssertionError: continue
    crc=bzcrc(plain)
    b=[]
    b+=MAGIC+num(32,crc)+[0]+num(24,op)
    b+=num(16,1<<(15-6))+num(16,(1<<(15-1))|(1<<(15-2)))
    b+=num(3,2)+num(15,(len(allsyms)+1+49)//50)+[0]*((len(allsyms)+1+49)//50)
    for t in range(2):
        b+=num(5,1)+[0]+[1,0,0]+[1,0,0]+[0]   # 1,2,3,3
    for s in allsyms: b+=code[s]
    b+=code['E']
    return b,crc,plain,n
def combine(crcs):
    c=0
    for x in crcs: c=(((c<<1)&0xFFFFFFFF)|(c>>31))^x
    return c
if __name__=='__main__':
    A,crcA,plainA,nA=craftA()
    Bblk,crcB=blocks_of(bz2.compress(b'hello block B '*20,9))[0]
    C=blocks_of(bz2.compress(bytes(45_000_000),9))
    assert len(C)==1, len(C)
    Cblk,crcC=C[0]
    bits=num(8,0x42)+num(8,0x5a)+num(8,0x68)+num(8,0x39)
    seq=[(A,crcA),(Bblk,crcB),(Cblk,crcC),(Cblk,crcC)]
    for blk,_ in seq: bits+=blk
    bits+=EOS+num(32,combine([c for _,c in seq]))
    data=tobytes(bits)
    open('f3.bz2','wb').write(data)
    exp=plainA+b'hello block B '*20+bytes(90_000_000)
    try:
        r=bz2.decompress(data); print('libbz2 ok', len(r), r==exp)
    except Exception as e: print('libbz2 ERR',e)
    print('len',len(data),'A bits',len(A),'plainA',plainA[:40],nA)
