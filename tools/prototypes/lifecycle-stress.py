import subprocess, sys, os, random, hashlib, glob
exe=sys.argv[1]; files=sorted(glob.glob(sys.argv[2])); runs=int(sys.argv[3]); seed0=int(sys.argv[4]) if len(sys.argv)>4 else 0
rnd=random.Random(seed0); bad=0; tot=0
for r in range(runs):
    for f in files:
        exp=open(f[:-4]+'.out','rb').read()
        env=dict(os.environ)
        env['LBZIP2_VERIF_CHECK']='1'
        env['LBZIP2_VERIF_IN_GRANUL']=str(rnd.choice([4,8,12,16,20,40,64,100,400]))
        if rnd.random()<0.7: env['LBZIP2_VERIF_PERTURB']=str(rnd.randrange(1,10**6))
        if rnd.random()<0.5: env['LBZIP2_VERIF_IN_SLOTS']=str(rnd.choice([1,2,3,5,9]))
        if rnd.random()<0.5: env['LBZIP2_VERIF_OUT_SLOTS']=str(rnd.choice([3,4,6,8]))
        if rnd.random()<0.3: env['LBZIP2_VERIF_OUT_GRANUL']=str(rnd.choice([50,1000,5000]))
        n=rnd.choice([2,2,3,3,4,6,8])
        try:
            p=subprocess.run([exe,'-n%d'%n,'-d'],stdin=open(f,'rb'),stdout=subprocess.PIPE,stderr=subprocess.PIPE,env=env,timeout=300)
            ok=(p.returncode==0 and p.stdout==exp)
            msg=p.stderr[:400]
        except subprocess.TimeoutExpired:
            ok=False; msg=b'TIMEOUT'
        tot+=1
        if not ok:
            bad+=1
            print('FAIL',f,n,{k:v for k,v in env.items() if k.startswith('LBZIP2_')},msg,flush=True)
print('runs',tot,'failures',bad)
