import subprocess,glob,random,os,collections
rnd=random.Random(5); cnt=collections.Counter(); bad=0
files=sorted(glob.glob('/tmp/w13t/stress/*.bz2'))
for r in range(2):
  for f in files:
    env=dict(os.environ,LBZIP2_VERIF_CHECK='1',LBZIP2_VERIF_IN_GRANUL=str(rnd.choice([4,8,12,16,20,40])),LBZIP2_VERIF_PERTURB=str(rnd.randrange(1,10**6)) if rnd.random()<0.5 else '')
    env['LBZIP2_VERIF_DELAY']=','.join('%s:%d:%d=%d'%(rnd.choice(['retr','retr','retr','scan']),rnd.randrange(0,300),b,rnd.choice([3,10,25])) for b in (0,1,1,1) for _ in range(40)).replace('scan:','scan:').replace(':1=',':1=')
    if rnd.random()<0.6: env['LBZIP2_VERIF_IN_SLOTS']=str(rnd.choice([1,2,3]))
    if rnd.random()<0.5: env['LBZIP2_VERIF_OUT_SLOTS']=str(rnd.choice([3,4,6]))
    p=subprocess.run(['/tmp/w13build/p2/lbzip2-cov','-n%d'%rnd.choice([2,3,4,6]),'-d'],stdin=open(f,'rb'),stdout=subprocess.PIPE,stderr=subprocess.PIPE,env=env,timeout=300)
    if p.returncode!=0 or p.stdout!=open(f[:-4]+'.out','rb').read(): bad+=1; print('FAIL',f,p.stderr[-300:])
    for l in p.stderr.decode().splitlines():
        if l.startswith('HEAPREMOVE'):
            i=int(l.split()[1][4:]); cnt['heapremove idx0' if i==0 else 'heapremove idx>0']+=1
        else: cnt[l]+=1
print(dict(cnt),'bad',bad)
