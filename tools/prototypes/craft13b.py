# craft13b.py -- block A with two planted block magics, the first one ending in the last
# word of input block 0 (IN_GRANUL=40), the second inside input block 2.
import bz2, sys
from craft5 import *
from craft13 import stream, blk
code={'A':[0],'B':[1,0],1:[1,1,0],'E':[1,1,1]}
def tok(bits):
    syms=[]; i=0
    while i<len(bits):
        if bits[i]==0: syms.append('A'); i+=1
        elif bits[i+1]==0: syms.append('B'); i+=2
        else:
            assert bits[i+2]==0; syms.append(1); i+=3
    return syms
PL=tok(MAGIC+[0]+[1,1,0]*10+[0])          # 80 bits
G=[1,'A',1,1,'B',1]                        # 15 bits
def nbits(s): return sum(len(code[x]) for x in s)
def fill(n):
    # n bits out of MTF1 (3), MTF1 RUNA (4), MTF1 RUNB (5)
    for a in range(0,40):
        for b in range(0,3):
            r=n-4*a-5*b
            if r>=0 and r%3==0: return [1,'A']*a+[1,'B']*b+[1]*(r//3)
    raise ValueError(n)
def craft(e1, s2, tail_groups):
    nsel=10
    while True:
        hdr=181+nsel
        pre=fill(e1-80-hdr)
        f1=fill(s2-e1)
        syms=pre+PL+f1+PL+G*tail_groups
        if (len(syms)+1+49)//50==nsel: break
        nsel=(len(syms)+1+49)//50
    used=[0x61,0x62]
    for op in range(0,400):
        try: plain,n=decode_syms(syms,used,op); break
        except AssertionError: continue
    crc=bzcrc(plain)
    b=MAGIC+num(32,crc)+[0]+num(24,op)
    b+=num(16,1<<(15-6))+num(16,(1<<(15-1))|(1<<(15-2)))
    b+=num(3,2)+num(15,nsel)+[0]*nsel
    for t in range(2): b+=num(5,1)+[0]+[1,0,0]+[1,0,0]+[0]
    assert len(b)==hdr
    for s in syms: b+=code[s]
    b+=code['E']
    return b,crc,plain
if __name__=='__main__':
    e1=int(sys.argv[1]) if len(sys.argv)>1 else 318
    s2=int(sys.argv[2]) if len(sys.argv)>2 else 700
    out=sys.argv[3] if len(sys.argv)>3 else 'f4.bz2'
    A,crcA,plainA=craft(e1,s2,40)
    B=blk(b'hello block B '*20)
    d=stream([(A,crcA),B])
    open(out,'wb').write(d)
    assert bz2.decompress(d)==plainA+b'hello block B '*20
    print(out,len(d),'A bits',len(A),'S1 base bit',e1,'= word',e1//32,'bit',e1%32,'S2 magic at',s2)
