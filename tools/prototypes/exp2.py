from exp import *
import time
tests=[
 ('tight out3 n2 spur', Cfg(2,3,12,[(0,5,'OK',2),(5,11,'OK',2)],11,spur=[(2,3,'ERR',1),(4,5,'OK',1),(7,9,'OK',2),(9,10,'ERR',1)],total_out=3,total_in=2)),
 ('tight out3 n3 spur', Cfg(3,3,12,[(0,5,'OK',2),(5,11,'OK',1)],11,spur=[(2,3,'ERR',1),(4,5,'OK',1),(7,9,'OK',1),(9,10,'ERR',1)],total_out=3,total_in=3)),
 ('tight out4 n2 manyspur', Cfg(2,4,12,[(0,11,'OK',1)],11,spur=[(2,3,'OK',1),(3,4,'OK',1),(5,6,'OK',1),(6,7,'OK',1),(9,10,'OK',1)],total_out=4,total_in=2)),
 ('out2 (below reserve) n2', Cfg(2,3,9,[(0,4,'OK',2),(4,8,'OK',2)],8,spur=[(3,6,'OK',1)],total_out=2,total_in=2)),
 ('out1 n2', Cfg(2,3,9,[(0,4,'OK',2),(4,8,'OK',2)],8,spur=[(3,6,'OK',1)],total_out=1,total_in=2)),
 ('in1 n2', Cfg(2,2,8,[(0,3,'OK',1),(3,7,'OK',1)],7,spur=[(2,5,'OK',1)],total_in=1)),
]
for name,c in tests:
    t0=time.time(); st=explore(c)
    print(name,{k:v for k,v in st.items() if k not in('dead','capviol')}, 'DEAD' if st['dead'] else '', 'VIOL '+str(st['capviol'][0][0]) if st['capviol'] else '', '%.1fs'%(time.time()-t0))
    if st['dead']: print('   dead state:',st['dead'][0])
