# Prototype: token-level Pratt parser for the C expression subset used by lbzip2 guards/formulas -> Lean term text
import re, sys
TOK=re.compile(r'\s*(?:(0[xX][0-9a-fA-F]+|\d+)[uUlL]*|([A-Za-z_]\w*)|(->|<<|>>|<=|>=|==|!=|&&|\|\||[-+*/%<>!~&|^?:(),.\[\]]))')
def tokens(s):
    out=[]; i=0
    s=re.sub(r'/\*.*?\*/','',s,flags=re.S)
    while i<len(s):
        m=TOK.match(s,i)
        if not m:
            if s[i:].strip()=='' : break
            raise SyntaxError('bad token at %r'%s[i:i+20])
        i=m.end()
        if m.group(1): out.append(('num',int(m.group(1),0)))
        elif m.group(2): out.append(('id',m.group(2)))
        else: out.append(('op',m.group(3)))
    return out
BIN={'||':1,'&&':2,'|':3,'^':4,'&':5,'==':6,'!=':6,'<':7,'>':7,'<=':7,'>=':7,'<<':8,'>>':8,'+':9,'-':9,'*':10,'/':10,'%':10}
class P:
    def __init__(s,t): s.t=t; s.i=0
    def peek(s): return s.t[s.i] if s.i<len(s.t) else ('eof',None)
    def eat(s,v=None):
        k=s.peek(); 
        if v is not None and k[1]!=v: raise SyntaxError('expected %s got %s'%(v,k))
        s.i+=1; return k
    def expr(s,minp=0):
        l=s.unary()
        while True:
            k=s.peek()
            if k[0]=='op' and k[1]=='?' and minp<=0:
                s.eat(); a=s.expr(0); s.eat(':'); b=s.expr(0); l=('ite',l,a,b); continue
            if k[0]=='op' and k[1] in BIN and BIN[k[1]]>=max(minp,1):
                op=s.eat()[1]; r=s.expr(BIN[op]+1); l=('bin',op,l,r); continue
            return l
    def unary(s):
        k=s.peek()
        if k==('op','!'): s.eat(); return ('not',s.unary())
        if k==('op','-'): s.eat(); return ('neg',s.unary())
        if k==('op','*'): s.eat(); return s.unary()
        if k==('op','('):
            s.eat(); e=s.expr(0); s.eat(')'); return s.postfix(e)
        if k[0]=='num': s.eat(); return ('num',k[1])
        if k[0]=='id':
            s.eat(); e=('id',k[1])
            return s.postfix(e)
        raise SyntaxError('unexpected %s'%(k,))
    def postfix(s,e):
        while True:
            k=s.peek()
            if k==('op','('):
                s.eat(); args=[]
                if s.peek()!=('op',')'):
                    args.append(s.expr(0))
                    while s.peek()==('op',','): s.eat(); args.append(s.expr(0))
                s.eat(')'); e=('call',e,args); continue
            if k==('op','->') or k==('op','.'):
                s.eat(); f=s.eat()[1]; e=('fld',e,f); continue
            return e
def lean(e):
    k=e[0]
    if k=='num': return str(e[1])
    if k=='id': return 's.'+e[1] if e[1][0].islower() else 'Gen.'+e[1]
    if k=='not': return '(!'+lean(e[1])+')'
    if k=='neg': return '(0 - '+lean(e[1])+')'
    if k=='fld': return lean(e[1])+'.'+e[2]
    if k=='call': return '('+e[1][1]+' '+' '.join(lean(a) for a in e[2])+')'
    if k=='ite': return '(if '+lean(e[1])+' then '+lean(e[2])+' else '+lean(e[3])+')'
    if k=='bin':
        op={'&&':'&&','||':'||','==':'==','!=':'!=','<<':'<<<','>>':'>>>','&':'&&&','|':'|||','^':'^^^'}.get(e[1],e[1])
        if e[1] in('<','>','<=','>='): return '(decide ('+lean(e[2])+' '+op+' '+lean(e[3])+'))'
        return '('+lean(e[2])+' '+op+' '+lean(e[3])+')'
def guards(path):
    src=open(path).read()
    out={}
    for m in re.finditer(r'static bool\s*\n(can_\w+)\(void\)\s*\{\s*return\s*(.*?);\s*\}',src,re.S):
        out[m.group(1)]=m.group(2)
    return out
if __name__=='__main__':
    for f in ('/repo/src/compress.c','/repo/src/expand.c'):
        for name,body in guards(f).items():
            e=P(tokens(body)).expr(0)
            print(name,':=',lean(e))
    # cl0
    src=open('/repo/src/encode.c').read()
    m=re.search(r'cl0 = (\(\(\(0xffffaa50.*?\)\));\s*/\*',src,re.S)
    print('cl0 :=',lean(P(tokens(m.group(1))).expr(0)))
    # task lists
    for f in ('/repo/src/compress.c','/repo/src/expand.c'):
        src=open(f).read()
        m=re.search(r'task_list\[\]\s*=\s*\{(.*?)\};',src,re.S)
        print(f.split('/')[-1],'tasks:',re.findall(r'\{\s*"(\w+)"',m.group(1)))
    # thresholds and capacities
    src=open('/repo/src/expand.c').read()
    print(re.findall(r'#define (\w+_THRESH) (.*)',src))
    print(re.findall(r'(?:pqueue|deque)_init\((\w+),\s*(.*?)\);',src,re.S))
