# Explicit-state exploration of an abstract model of lbzip2's compression scheduler (compress.c + process.c)
import sys, itertools
from collections import deque
TR=2
def explore(n, chunks, ultra, TR=2, out_total=None, verbose=False):
    # chunks: list of m_i (non-ultra: number of blocks chunk i yields, >=1)
    # ultra: chunks: list of (cuts, tail) : cuts = number of blocks completed inside the chunk; tail: True if bytes remain after last cut (unfinished continues)
    total_in=2*n; total_out=(2*n+TR) if out_total is None else out_total
    K=len(chunks)
    # state: (rd, in_slots, coll, trans, reord, order, wu, out_slots, eof, outq, workers, token, unfinished, written)
    # rd: index of next chunk to read (K means need the terminating read, K+1 done)
    # coll: frozenset of (major,minor) ; positions carry 'left' implicitly via chunks spec
    # workers: tuple of phases: None or ('C1',pos) ('C2',pos,next) ('T1',pos,next) ; for ultra: ('S1',wpos,ipos or None, ...) 
    init=(0,total_in,frozenset(),frozenset(),frozenset(),(0,0),n,total_out,False,(),tuple([None]*n),True,None,())
    seen={init}; dq=deque([init]); finals=0; maxq=[0,0,0,0]
    def nextpos_nonultra(pos):
        M,m=pos
        return (M,m+1) if m+1<chunks[M] else (M+1,0)
    def ready(s):
        rd,ins,coll,trans,reord,order,wu,outs,eof,outq,ws,token,unf,wr=s
        # returns task name per priority list
        if ultra and token and (coll or (eof and unf is not None)) and (wu>0 or unf is not None): return 'collect_seq'
        if reord and min(p for p,_ in reord)==order: return 'reorder'
        if trans and (outs>TR or (outs>0 and min(p for p,_ in trans)==order)): return 'transmit'
        if (not ultra) and coll and wu>0: return 'collect'
        return None
    def finished(s):
        rd,ins,coll,trans,reord,order,wu,outs,eof,outq,ws,token,unf,wr=s
        return eof and not coll and wu==n and outs==total_out
    def succ(s):
        rd,ins,coll,trans,reord,order,wu,outs,eof,outq,ws,token,unf,wr=s
        res=[]
        # reader
        if rd<=K and ins>0:
            if rd<K:
                res.append(('read',(rd+1,ins-1,coll|{(rd,0)},trans,reord,order,wu,outs,eof,outq,ws,token,unf,wr)))
            else:
                # terminating read of 0 bytes: slot taken and released, then eof
                res.append(('eof',(rd+1,ins,coll,trans,reord,order,wu,outs,True,outq,ws,token,unf,wr)))
        # writer
        if outq:
            res.append(('write',(rd,ins,coll,trans,reord,order,wu,outs+1,eof,outq[1:],ws,token,unf,wr+(outq[0],))))
        # workers
        t=ready(s)
        fin=finished(s)
        for i,w in enumerate(ws):
            def setw(x): return ws[:i]+(x,)+ws[i+1:]
            if w is None:
                if t is None or fin and False: continue
                if t=='collect':
                    pos=min(coll)
                    res.append(('collect.a1',(rd,ins,coll-{pos},trans,reord,order,wu-1,outs,eof,outq,setw(('C1',pos)),token,unf,wr)))
                elif t=='transmit':
                    it=min(trans)
                    res.append(('transmit.a1',(rd,ins,coll,trans-{it},reord,order,wu,outs-1,eof,outq,setw(('T1',)+it),token,unf,wr)))
                elif t=='reorder':
                    it=min(reord)
                    res.append(('reorder',(rd,ins,coll,trans,reord-{it},it[1],wu,outs,eof,outq+(it[0],),ws,token,unf,wr)))
                elif t=='collect_seq':
                    w_=unf; wu2=wu if unf is not None else wu-1
                    ib=min(coll) if coll else None
                    coll2=coll-{ib} if ib is not None else coll
                    res.append(('cseq.a1',(rd,ins,coll2,trans,reord,order,wu2,outs,eof,outq,setw(('S1',w_,ib)),False,None,wr)))
                break  # symmetric idle workers: only let the first idle one move (reduction)
            else:
                if w[0]=='C1':
                    pos=w[1]; M,m=pos
                    nxt=nextpos_nonultra(pos)
                    if m+1<chunks[M]:
                        res.append(('collect.a2',(rd,ins,coll|{(M,m+1)},trans,reord,order,wu,outs,eof,outq,setw(('C2',pos,nxt)),token,unf,wr)))
                    else:
                        res.append(('collect.a2r',(rd,ins+1,coll,trans,reord,order,wu,outs,eof,outq,setw(('C2',pos,nxt)),token,unf,wr)))
                elif w[0]=='C2':
                    res.append(('collect.a3',(rd,ins,coll,trans|{(w[1],w[2])},reord,order,wu,outs,eof,outq,setw(None),token,unf,wr)))
                elif w[0]=='T1':
                    res.append(('transmit.a2',(rd,ins,coll,trans,reord|{(w[1],w[2])},order,wu+1,outs,eof,outq,setw(None),token,unf,wr)))
                elif w[0]=='S1':
                    _,wb,ib=w
                    # wb: None or (pos,next) unfinished; ib: chunk position or None
                    if wb is None:
                        assert ib is not None
                        wb=(ib,ib)
                    done=True
                    ins2=ins; coll3=coll
                    if ib is not None:
                        M,m=ib; cuts,tail=chunks[M]
                        # iblk at minor m: m cuts already consumed in this chunk
                        if m<cuts:
                            done=True
                            # after this cut: is there data left in chunk?
                            left = (m+1<cuts) or tail
                            if left:
                                coll3=coll|{(M,m+1)}; wb=(wb[0],(M,m+1))
                            else:
                                ins2=ins+1; wb=(wb[0],(M+1,0))
                        else:
                            # tail portion: consumed fully, block not full
                            assert tail
                            done=False
                            ins2=ins+1; wb=(wb[0],(M+1,0))
                    if not done:
                        res.append(('cseq.notdone',(rd,ins2,coll3,trans,reord,order,wu,outs,eof,outq,setw(None),True,wb,wr)))
                    else:
                        res.append(('cseq.done',(rd,ins2,coll3,trans,reord,order,wu,outs,eof,outq,setw(('C2',wb[0],wb[1])),True,None,wr)))
        return res
    dead=[]
    while dq:
        s=dq.popleft()
        rd,ins,coll,trans,reord,order,wu,outs,eof,outq,ws,token,unf,wr=s
        assert len(coll)<=total_in, ('coll cap',s)
        assert len(trans)<=n, ('trans cap',s)
        assert len(reord)<=total_out, ('reord cap',s)
        assert len(outq)<=total_out, ('outq cap',s)
        assert 0<=wu<=n and 0<=outs<=total_out and 0<=ins<=total_in
        maxq=[max(maxq[0],len(coll)),max(maxq[1],len(trans)),max(maxq[2],len(reord)),max(maxq[3],len(outq))]
        # conservation
        held=len(trans)+sum(1 for w in ws if w and w[0] in('C1','C2','T1'))+sum(1 for w in ws if w and w[0]=='S1' )+(1 if unf is not None else 0)
        assert wu+held==n, ('wu conservation',s,held)
        oheld=len(reord)+len(outq)+sum(1 for w in ws if w and w[0]=='T1')
        assert outs+oheld==total_out, ('out conservation',s)
        sc=succ(s)
        if not sc:
            if finished(s) and rd==K+1 and not outq and all(w is None for w in ws):
                finals+=1
                assert list(wr)==sorted(wr) and len(set(wr))==len(wr), ('order',wr)
                assert token and unf is None
            else:
                dead.append(s)
        for _,t in sc:
            if t not in seen:
                seen.add(t); dq.append(t)
    return len(seen),finals,len(dead),dead[:1],maxq
if __name__=='__main__':
    for n in (1,2,3):
        for chunks in ([1],[2],[1,1],[2,1],[1,2,1],[2,2],[1,1,1,1],[3,1,2]):
            r=explore(n,chunks,False)
            print('nonultra n=%d chunks=%s states=%d finals=%d dead=%d maxq=%s'%(n,chunks,r[0],r[1],r[2],r[4]), r[3] if r[2] else '')
    for n in (1,2,3):
        for chunks in ([(0,True)],[(1,False)],[(1,True)],[(0,True),(0,True)],[(0,True),(1,True),(0,True)],[(2,True),(1,False),(0,True)],[(1,False),(1,False)]):
            r=explore(n,chunks,True)
            print('ultra n=%d chunks=%s states=%d finals=%d dead=%d maxq=%s'%(n,chunks,r[0],r[1],r[2],r[4]), r[3] if r[2] else '')
