# craft13.py -- streams for the F2/F4/F5 lifecycle reproducers (uses craft5.py helpers)
import bz2, sys, random
from craft5 import *
def stream(seq, level=9):
    bits=num(8,0x42)+num(8,0x5a)+num(8,0x68)+num(8,0x30+level)
    for blk,_ in seq: bits+=blk
    bits+=EOS+num(32,combine([c for _,c in seq]))
    return tobytes(bits)
def blk(data):
    b=blocks_of(bz2.compress(data,9)); assert len(b)==1; return b[0]
if __name__=='__main__':
    A,crcA,plainA,nA=craftA()
    A=(A,crcA)
    P=blk(b'P'*30+b'block P')
    B=blk(b'hello block B '*20)
    C=blk(b'this is block C '*20)
    D=blk(b'and block D here'*20)
    # s1: P A B C D
    d=stream([P,A,B,C,D]); open('pabcd.bz2','wb').write(d)
    exp=b'P'*30+b'block P'+plainA+b'hello block B '*20+b'this is block C '*20+b'and block D here'*20
    assert bz2.decompress(d)==exp
    # s2: A B + trailing garbage holding a block magic + a truncated block body
    d2=stream([A,B])+b'\0'*8+tobytes(A[0])[:120]
    open('ab-garbage.bz2','wb').write(d2)
    print(len(d),len(d2))
