# craft13c.py -- random valid streams whose blocks carry several planted block magics
import bz2, sys, random, os
from craft5 import *
from craft13 import stream, blk
from craft13b import tok, fill, nbits, code, G
def planted(rnd):
    # magic + 32 tokenisable bits (no '111')
    tail=[0]
    while len(tail)<32:
        tail+=rnd.choice([[0],[1,0],[1,1,0]])
    return tok(MAGIC+tail)
def craft_multi(rnd, k, gapmax, tailg):
    syms=fill(rnd.randrange(3,60))
    for _ in range(k):
        syms+=planted(rnd)+fill(rnd.randrange(3,gapmax))
    syms+=G*tailg
    nsel=(len(syms)+1+49)//50
    used=[0x61,0x62]
    for op in range(0,2000):
        try: plain,n=decode_syms(syms,used,op); break
        except AssertionError: continue
    else: raise ValueError
    crc=bzcrc(plain)
    b=MAGIC+num(32,crc)+[0]+num(24,op)
    b+=num(16,1<<(15-6))+num(16,(1<<(15-1))|(1<<(15-2)))
    b+=num(3,2)+num(15,nsel)+[0]*nsel
    for t in range(2): b+=num(5,1)+[0]+[1,0,0]+[1,0,0]+[0]
    for s in syms: b+=code[s]
    b+=code['E']
    return (b,crc),plain
def make(seed):
    rnd=random.Random(seed)
    seq=[]; exp=b''
    for _ in range(rnd.randrange(1,5)):
        if rnd.random()<0.65:
            try: blkA,plain=craft_multi(rnd, rnd.randrange(1,7), rnd.choice([40,200,700]), rnd.randrange(1,40))
            except (ValueError,IndexError): continue
            seq.append(blkA); exp+=plain
        else:
            data=bytes(rnd.randrange(97,100) for _ in range(rnd.randrange(1,600)))
            seq.append(blk(data)); exp+=data
    if not seq:
        seq.append(blk(b'x')); exp=b'x'
    d=stream(seq)
    if rnd.random()<0.3:   # second stream and/or trailing garbage with a magic
        d+=bz2.compress(b'second stream')+(b'\0'*rnd.randrange(0,9)+tobytes(MAGIC+num(32,rnd.getrandbits(32)))+os.urandom(rnd.randrange(0,80)) if rnd.random()<0.5 else b'')
        exp+=b'second stream'
    return d,exp
if __name__=='__main__':
    outdir=sys.argv[1]; n=int(sys.argv[2])
    os.makedirs(outdir,exist_ok=True)
    for i in range(n):
        d,exp=make(i)
        # check against libbz2 (multi-stream, ignore trailing garbage)
        o=b''; r=d
        while r:
            z=bz2.BZ2Decompressor()
            try: o+=z.decompress(r)
            except Exception: break
            r=z.unused_data
        assert o==exp,(i,len(o),len(exp))
        open('%s/s%03d.bz2'%(outdir,i),'wb').write(d)
        open('%s/s%03d.out'%(outdir,i),'wb').write(exp)
    print('ok',n)
