import sys, bz2
def crc_table():
    t=[]
    for i in range(256):
        c=i<<24
        for _ in range(8):
            c=((c<<1)&0xFFFFFFFF)^(0x04C11DB7 if c&0x80000000 else 0)
        t.append(c)
    return t
T=crc_table()
def bzcrc(data):
    c=0xFFFFFFFF
    for b in data:
        c=((c<<8)&0xFFFFFFFF)^T[(c>>24)^b]
    return c^0xFFFFFFFF
class W:
    def __init__(s): s.bits=[]
    def put(s,n,v):
        for i in range(n-1,-1,-1): s.bits.append((v>>i)&1)
    def raw(s,str_):
        for ch in str_: s.bits.append(int(ch))
    def bytes(s):
        b=s.bits+[0]*((-len(s.bits))%8)
        return bytes(int(''.join(map(str,b[i:i+8])),2) for i in range(0,len(b),8))
def stream(table1_bits, level=9):
    w=W()
    w.put(8,0x42);w.put(8,0x5a);w.put(8,0x68);w.put(8,0x30+level)
    w.put(24,0x314159);w.put(24,0x265359)
    crc=bzcrc(b'a')
    w.put(32,crc)
    w.put(1,0); w.put(24,0)
    # bitmap: 'a'=0x61 -> big bit 6, small bit 1
    w.put(16,1<<(15-6)); w.put(16,1<<(15-1))
    w.put(3,2); w.put(15,1); w.raw('0')
    # table 0: lengths 1,2,2
    w.put(5,1); w.raw('0'); w.raw('10'); w.raw('0'); w.raw('0')
    # table 1
    w.raw(table1_bits)
    # symbols: RUNA=0, EOB=11
    w.raw('0'); w.raw('11')
    w.put(24,0x177245);w.put(24,0x385090)
    w.put(32,crc)  # combined = (0<<1|0>>31)^crc
    return w.bytes()
cases={
 'ok':      format(20,'05b')+'0'+'0'+'0',
 'excur_hi':format(20,'05b')+'10'+'11'+'0'+'0'+'0',   # 20 ->21 ->20
 'excur_lo':format(1,'05b')+'11'+'10'+'0'+'0'+'0',    # 1 -> 0 -> 1
 'start0':  format(0,'05b')+'10'+'0'+'0'+'0',         # 0 -> 1
 'start21': format(21,'05b')+'11'+'0'+'0'+'0',        # 21 -> 20
 'bad21':   format(20,'05b')+'10'+'0'+'0'+'0',        # ends at 21
}
for name,bits in cases.items():
    data=stream(bits)
    open(f'/tmp/scratch/{name}.bz2','wb').write(data)
    try:
        r=bz2.decompress(data); ref='OK '+repr(r)
    except Exception as e: ref='ERR '+str(e)
    print(name, ref)
