namespace Rle
abbrev B := UInt8

def flush (c : B) (r : Nat) : List B :=
  if r ≥ 4 then [c, c, c, c, UInt8.ofNat (r - 4)] else List.replicate r c

def encAux (c : B) (r : Nat) : List B → List B
  | [] => flush c r
  | x :: xs => if x = c ∧ r < 259 then encAux c (r + 1) xs else flush c r ++ encAux x 1 xs

def enc : List B → List B
  | [] => []
  | x :: xs => encAux x 1 xs

def decAux (p : B) (k : Nat) : List B → List B
  | [] => []
  | b :: bs =>
    if k = 4 then List.replicate b.toNat p ++ decAux p 0 bs
    else if k ≠ 0 ∧ b = p then b :: decAux p (k + 1) bs
    else b :: decAux b 1 bs

def dec (l : List B) : List B := decAux 0 0 l

/-- decoding `j` further copies of `c` when already `k` seen (k ≥ 1, k + j ≤ 4) -/
theorem dec_copies (c : B) (k j : Nat) (hk : 1 ≤ k) (hj : k + j ≤ 4) (rest : List B) :
    decAux c k (List.replicate j c ++ rest) = List.replicate j c ++ decAux c (k + j) rest := by
  induction j generalizing k with
  | zero => simp
  | succ j ih =>
    have h4 : k ≠ 4 := by omega
    have h0 : k ≠ 0 := by omega
    simp only [List.replicate_succ, List.cons_append, decAux, h4, h0, if_false, ne_eq, not_false_eq_true, and_self, if_true]
    rw [ih (k + 1) (by omega) (by omega)]
    simp [Nat.add_assoc, Nat.add_comm 1 j]

theorem dec_first (p c : B) (k : Nat) (hk : k = 0 ∨ p ≠ c) (hk4 : k ≠ 4) (rest : List B) :
    decAux p k (c :: rest) = c :: decAux c 1 rest := by
  rcases hk with hk | hk
  · subst hk; simp [decAux]
  · simp only [decAux, hk4, if_false]
    have : ¬ (k ≠ 0 ∧ c = p) := by intro h; exact hk h.2.symm
    simp [this]

theorem dec_flush (p c : B) (k r : Nat) (hr : 1 ≤ r) (hr' : r ≤ 259) (hk : k = 0 ∨ p ≠ c) (hk4 : k ≠ 4)
    (rest : List B) :
    decAux p k (flush c r ++ rest) = List.replicate r c ++ decAux c (if r ≥ 4 then 0 else r) rest := by
  unfold flush
  split
  · rename_i h4
    have h255 : (UInt8.ofNat (r - 4)).toNat = r - 4 := by
      simp [UInt8.toNat_ofNat']; omega
    simp only [List.cons_append, List.nil_append]
    rw [dec_first p c k hk hk4]
    have := dec_copies c 1 3 (by omega) (by omega) (UInt8.ofNat (r - 4) :: rest)
    simp only [List.replicate, List.cons_append, List.nil_append] at this
    rw [this]
    simp only [decAux, if_true, h255]
    have : r = 4 + (r - 4) := by omega
    conv => rhs; rw [this, ← List.replicate_append_replicate]
    simp [List.replicate]
  · rename_i h4
    obtain ⟨j, rfl⟩ : ∃ j, r = j + 1 := ⟨r - 1, by omega⟩
    simp only [List.replicate_succ, List.cons_append]
    rw [dec_first p c k hk hk4, dec_copies c 1 j (by omega) (by omega)]
    simp [Nat.add_comm]

theorem dec_encAux (c : B) (r : Nat) (xs : List B) (hr : 1 ≤ r) (hr' : r ≤ 259) (p : B) (k : Nat)
    (hk : k = 0 ∨ p ≠ c) (hk4 : k ≠ 4) :
    decAux p k (encAux c r xs) = List.replicate r c ++ xs := by
  induction xs generalizing c r p k with
  | nil =>
    have := dec_flush p c k r hr hr' hk hk4 []
    simpa [encAux, decAux] using this
  | cons x xs ih =>
    unfold encAux
    split
    · rename_i h
      obtain ⟨rfl, hlt⟩ := h
      rw [ih x (r + 1) (by omega) (by omega) p k hk hk4]
      simp [List.replicate_succ', List.append_assoc]
    · rename_i h
      rw [dec_flush p c k r hr hr' hk hk4]
      have hk2 : (if r ≥ 4 then 0 else r) = 0 ∨ c ≠ x := by
        by_cases h4 : r ≥ 4
        · simp [h4]
        · right; intro hcx; exact h ⟨hcx.symm, by omega⟩
      have hk24 : (if r ≥ 4 then 0 else r) ≠ 4 := by split <;> omega
      rw [ih x 1 (by omega) (by omega) c _ hk2 hk24]
      simp

theorem dec_enc (xs : List B) : dec (enc xs) = xs := by
  cases xs with
  | nil => rfl
  | cons x xs =>
    have := dec_encAux x 1 xs (by omega) (by omega) 0 0 (Or.inl rfl) (by omega)
    simpa [dec, enc] using this

#print axioms dec_enc
end Rle
