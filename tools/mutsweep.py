#!/usr/bin/env python3
"""Mutation sweep: measure which checks notice small mechanical changes of
/repo's source.  NOT a check and not a proof; a way to find gaps in the
correspondence campaigns (a surviving mutant is either equivalent, outside all
22 properties, or a gap to close by strengthening a generator).

usage: tools/mutsweep.py --n 40 [--seed 1] [--files decode.c,expand.c]
                         [--jobs 3] [--out .cache/mutsweep.json]

Every mutant lives in its own scratch worktree under /tmp/mutsweep (removed
afterwards); checks run against it through LBZ_REPO / LBZ_LEAN /
LBZ_EVIDENCE_DIR, so /repo, the shared Lean project and evidence/ are never
touched.  A mutant none of the selected checks kills is then run through the
repository's own test suite to tell 'killed by tests' from 'survives both'."""
import argparse
import concurrent.futures as cf
import json
import os
import random
import re
import shutil
import subprocess
import time

VERIF = '/verif'
ROOT = '/tmp/mutsweep'

CHECKS = {
    'compress.c': ['C01', 'C02', 'C03', 'C04', 'C08', 'C11', 'C13'],
    'encode.c': ['C01', 'C02', 'C03', 'C08', 'C20'],
    'divbwt.c': ['C01', 'C03', 'C08'],
    'decode.c': ['C05', 'C06', 'C07', 'C08', 'C09'],
    'expand.c': ['C05', 'C07', 'C09', 'C10', 'C11', 'C13', 'C15'],
    'parse.c': ['C05', 'C06', 'C07', 'C14', 'C15', 'C10'],
    'process.c': ['C03', 'C09', 'C11', 'C12', 'C16', 'C19', 'C21'],
    'main.c': ['C16', 'C17', 'C18', 'C21', 'C22'],
    'signals.c': ['C16', 'C21'],
}

OPS = [
    (r'(?<![<>=!\-])<=(?!=)', '<'), (r'(?<![<>=!\-])>=(?!=)', '>'),
    (r'(?<![<\-])<(?![<=])', '<='), (r'(?<![>\-])>(?![>=])', '>='),
    (r'==', '!='), (r'!=', '=='),
    (r'&&', '||'), (r'\|\|', '&&'),
    (r'\+ 1\b(?!\d)', ''), (r'- 1\b(?!\d)', ''),
    (r'\+ 1\b(?!\d)', '+ 2'), (r'- 1\b(?!\d)', '- 2'),
    (r'\+\+', '--'), (r'\+=', '-='),
]
CONST = re.compile(r'(?<![\w.])(\d{1,6})u?(?![\w.])')


def sh(cmd, cwd=None, timeout=3600, env=None):
    return subprocess.run(cmd, cwd=cwd, shell=isinstance(cmd, str),
                          stdout=subprocess.PIPE, stderr=subprocess.STDOUT,
                          text=True, timeout=timeout, env=env)


def code_lines(path):
    """indices of lines eligible for mutation: not comment, not preprocessor,
    not inside a KJN_LBZIP2_VERIF block, not Trace()/assert (debug only)."""
    L = open(path).read().split('\n')
    ok = []
    incomment = False
    hook = 0
    for i, l in enumerate(L):
        s = l.strip()
        if s.startswith('#if') and 'KJN_LBZIP2_VERIF' in s:
            hook = 1
            continue
        if hook:
            if s.startswith('#if'):
                hook += 1
            elif s.startswith('#endif'):
                hook -= 1
            continue
        if incomment:
            if '*/' in s:
                incomment = False
            continue
        if s.startswith('/*'):
            if '*/' not in s:
                incomment = True
            continue
        if not s or s.startswith('#') or s.startswith('*') or \
                s.startswith('//'):
            continue
        if re.match(r'(Trace|assert|VERIF_ASSERT)\s*\(', s):
            continue
        ok.append(i)
    return L, ok


def strip_trailing_comment(l):
    j = l.find('/*')
    return (l[:j], l[j:]) if j >= 0 else (l, '')


def candidates(path):
    L, ok = code_lines(path)
    out = []
    for i in ok:
        code, tail = strip_trailing_comment(L[i])
        if '"' in code or "'" in code:
            continue
        if re.match(r'^[\s\d,+xXa-fA-Fu{}]+$', code):   # table rows
            continue
        for pat, rep in OPS:
            for m in re.finditer(pat, code):
                new = code[:m.start()] + rep + code[m.end():]
                out.append((i, L[i], new + tail, 'op %s -> %s' %
                            (m.group(0), rep or '(deleted)')))
        for m in CONST.finditer(code):
            v = int(m.group(1))
            for d in (1, -1):
                if v + d < 0:
                    continue
                new = code[:m.start(1)] + str(v + d) + code[m.end(1):]
                out.append((i, L[i], new + tail, 'const %d -> %d' %
                            (v, v + d)))
        s = code.strip()
        if re.match(r'^[\w\->\.\[\]\(\) ]+ (=|\+=|-=|\|=|&=|\^=) [^;]*;$', s) \
                and not re.match(r'^(const|unsigned|int|size_t|struct|uint\d+_t|'
                                 r'bool|char|long|void|static)\b', s):
            out.append((i, L[i], code.replace(s, ';') + tail,
                        'delete statement'))
    return out


def run_mutant(k, fn, cand, checks, jobs, seed):
    i, old, new, what = cand
    d = os.path.join(ROOT, 'm%03d' % k)
    shutil.rmtree(d, ignore_errors=True)
    os.makedirs(d)
    wt = os.path.join(d, 'repo')
    res = {'k': k, 'file': fn, 'line': i + 1, 'what': what,
           'old': old.strip(), 'new': new.strip()}
    try:
        r = sh(['git', '-C', '/repo', 'worktree', 'add', '-q', '--detach', wt,
                'HEAD'])
        if r.returncode:
            res['status'] = 'worktree-failed'
            return res
        p = os.path.join(wt, 'src', fn)
        L = open(p).read().split('\n')
        assert L[i] == old
        L[i] = new
        open(p, 'w').write('\n'.join(L))
        res['diff'] = sh(['git', '-C', wt, 'diff']).stdout
        r = sh('cmake -S . -B _b -G Ninja -DCMAKE_BUILD_TYPE=RelWithDebInfo '
               '>/dev/null 2>&1 && cmake --build _b 2>&1 | tail -5', cwd=wt)
        if not os.path.exists(os.path.join(wt, '_b', 'lbzip2')) or \
                'error' in r.stdout.lower():
            res['status'] = 'does-not-compile'
            return res
        shutil.copytree(os.path.join(VERIF, 'lean'), os.path.join(d, 'lean'),
                        symlinks=True)
        try:
            os.unlink(os.path.join(d, 'lean', '.build.lock'))
        except OSError:
            pass
        os.makedirs(os.path.join(d, 'evidence'))
        env = dict(os.environ, LBZ_REPO=wt, LBZ_LEAN=os.path.join(d, 'lean'),
                   LBZ_EVIDENCE_DIR=os.path.join(d, 'evidence'),
                   VERIF_SEED=str(seed))

        def one(cid):
            t0 = time.time()
            try:
                r = sh([os.path.join(VERIF, 'check'), cid], env=env,
                       timeout=2400)
                rc, out = r.returncode, r.stdout
            except subprocess.TimeoutExpired:
                rc, out = 124, 'TIMEOUT'
            v = [l for l in out.splitlines() if l.startswith('VIOLATION')]
            why = ''
            ls = out.splitlines()
            for j, l in enumerate(ls):
                if l.startswith('VIOLATION') and j + 1 < len(ls):
                    why = ls[j + 1][:300]
                    break
            return cid, rc, (v[0][:200] if v else ''), why, \
                round(time.time() - t0)
        killed = []
        with cf.ThreadPoolExecutor(jobs) as ex:
            for cid, rc, v, why, dt in ex.map(one, checks):
                res.setdefault('checks', {})[cid] = {'rc': rc, 'violation': v,
                                                    'why': why, 's': dt}
                if rc != 0:
                    killed.append(cid)
        res['killed_by'] = killed
        if killed:
            res['status'] = 'killed'
            return res
        r = sh('ctest --test-dir _b -j12 --timeout 900 2>&1 | tail -4', cwd=wt,
               timeout=7200)
        line = [l for l in r.stdout.splitlines() if 'tests passed' in l]
        res['ctest'] = line[0].strip() if line else r.stdout[-200:]
        res['status'] = 'survives-checks-and-tests' \
            if line and line[0].startswith('100%') else 'killed-by-tests-only'
        return res
    finally:
        sh(['git', '-C', '/repo', 'worktree', 'remove', '--force', wt])
        shutil.rmtree(d, ignore_errors=True)


def main():
    ap = argparse.ArgumentParser()
    ap.add_argument('--n', type=int, default=20)
    ap.add_argument('--seed', type=int, default=1)
    ap.add_argument('--files', default=','.join(CHECKS))
    ap.add_argument('--jobs', type=int, default=3)
    ap.add_argument('--par', type=int, default=1, help='mutants in parallel')
    ap.add_argument('--out', default=os.path.join(VERIF, '.cache',
                                                   'mutsweep.json'))
    a = ap.parse_args()
    rng = random.Random(a.seed)
    files = a.files.split(',')
    pool = []
    for fn in files:
        for c in candidates(os.path.join('/repo/src', fn)):
            pool.append((fn, c))
    rng.shuffle(pool)
    # at most one mutant per source line, spread over the files
    seen = set()
    pick = []
    per = {}
    for fn, c in pool:
        if (fn, c[0]) in seen:
            continue
        if per.get(fn, 0) >= max(1, (a.n + len(files) - 1) // len(files)):
            continue
        seen.add((fn, c[0]))
        per[fn] = per.get(fn, 0) + 1
        pick.append((fn, c))
        if len(pick) >= a.n:
            break
    os.makedirs(ROOT, exist_ok=True)
    results = []
    if os.path.exists(a.out):
        results = json.load(open(a.out))
    base = len(results)
    print('pool %d candidates, running %d' % (len(pool), len(pick)),
          flush=True)

    def go(t):
        k, (fn, c) = t
        return run_mutant(base + k, fn, c, CHECKS[fn], a.jobs, a.seed)
    with cf.ThreadPoolExecutor(a.par) as ex:
        for res in ex.map(go, enumerate(pick)):
            results.append(res)
            json.dump(results, open(a.out, 'w'), indent=1)
            print('%3d %-11s %-4d %-28s %-28s %s' % (
                res['k'], res['file'], res['line'], res['what'],
                res['status'], ','.join(res.get('killed_by', []))), flush=True)
    sh(['git', '-C', '/repo', 'worktree', 'prune'])
    shutil.rmtree(ROOT, ignore_errors=True)


if __name__ == '__main__':
    main()
